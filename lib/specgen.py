"""Feature-grammar generator of OpenAPI 3.1 documents (seeded; every choice from one PRNG)."""
import random

PRIMS = [
    {"type": "string"}, {"type": "string", "format": "date-time"}, {"type": "string", "format": "date"},
    {"type": "string", "format": "uuid"}, {"type": "string", "format": "byte"}, {"type": "string", "format": "email"},
    {"type": "integer"}, {"type": "integer", "format": "int32"}, {"type": "integer", "format": "int64"},
    {"type": "number"}, {"type": "number", "format": "float"}, {"type": "boolean"},
]
PROP_NAMES = ["id", "name", "kind", "tags", "count", "created_at", "meta", "value", "items", "parent", "child", "status",
              "fooBar", "foo-bar", "type", "x-y", "data", "ref", "next", "owner"]
ENUM_VALUES = [["a", "b", "c"], ["active", "inactive"], ["A", "a"], ["foo-bar", "foo_bar"], ["1", "2"], [1, 2, 3],
               ["x"], [True, False], ["", "none"]]


class Gen:
    def __init__(self, seed, n_schemas=None, features=None):
        self.r = random.Random(seed)
        self.names = []
        self.features = features or {}
        self.counts = {}

    def feat(self, k, p):
        """probabilistic feature switch, counted for the evidence's input distribution"""
        if self.features.get(k, True) is False:
            return False
        v = self.r.random() < p
        if v:
            self.counts[k] = self.counts.get(k, 0) + 1
        return v

    def prim(self):
        s = dict(self.r.choice(PRIMS))
        if s["type"] == "string" and "format" not in s and self.feat("str_constraints", 0.25):
            s["minLength"] = self.r.randint(0, 3)
            s["maxLength"] = s["minLength"] + self.r.randint(0, 10)
            if self.r.random() < 0.3:
                s["pattern"] = self.r.choice(["^[a-z]+$", "^\\d{3}$", "a|b"])
        if s["type"] in ("integer", "number") and self.feat("num_constraints", 0.25):
            s["minimum"] = self.r.randint(-5, 5)
            s["maximum"] = s["minimum"] + self.r.randint(0, 100)
        if self.feat("default", 0.12):
            s["default"] = {"string": "dflt", "integer": 3, "number": 1.5, "boolean": True}[s["type"]] if "format" not in s else None
            if s["default"] is None:
                del s["default"]
        return s

    def ref(self):
        return {"$ref": "#/components/schemas/" + self.r.choice(self.names)}

    def schema(self, depth=0):
        r = self.r.random()
        if r < 0.35 or depth > 2:
            return self.prim()
        if r < 0.55 and self.names:
            return self.ref()
        if r < 0.65:
            self.counts["array"] = self.counts.get("array", 0) + 1
            s = {"type": "array", "items": self.schema(depth + 1)}
            if self.feat("arr_constraints", 0.2):
                s["minItems"] = self.r.randint(0, 2)
                s["maxItems"] = s["minItems"] + self.r.randint(0, 5)
            return s
        if r < 0.72:
            self.counts["map"] = self.counts.get("map", 0) + 1
            return {"type": "object", "additionalProperties": self.schema(depth + 1) if self.r.random() < 0.7 else True}
        if r < 0.80:
            self.counts["enum"] = self.counts.get("enum", 0) + 1
            vals = self.r.choice(ENUM_VALUES)
            t = "string" if isinstance(vals[0], str) else ("boolean" if isinstance(vals[0], bool) else "integer")
            return {"type": t, "enum": list(vals)}
        if r < 0.86:
            self.counts["nullable"] = self.counts.get("nullable", 0) + 1
            p = self.prim()
            p["type"] = [p["type"], "null"]
            return p
        if r < 0.93 and self.names:
            self.counts["union"] = self.counts.get("union", 0) + 1
            k = self.r.choice(["oneOf", "anyOf"])
            members = [self.ref() for _ in range(self.r.randint(2, 3))]
            if self.r.random() < 0.4:
                members.append(self.r.choice([{"type": "string"}, {"type": "integer"}, {"type": "null"}]))
            return {k: members}
        self.counts["inline_object"] = self.counts.get("inline_object", 0) + 1
        return self.object(depth + 1)

    def object(self, depth=0):
        n = self.r.randint(1, 5)
        props = {}
        for p in self.r.sample(PROP_NAMES, n):
            props[p] = self.schema(depth + 1)
        s = {"type": "object", "properties": props}
        req = [p for p in props if self.r.random() < 0.4]
        if req:
            s["required"] = req
        if self.feat("no_additional", 0.15):
            s["additionalProperties"] = False
        if self.feat("description", 0.3):
            s["description"] = self.r.choice(["A thing.", "Line one\nline two", "With `code` and *markup*"])
        return s

    def component(self, name):
        r = self.r.random()
        if r < 0.6:
            return self.object()
        if r < 0.7:
            vals = self.r.choice(ENUM_VALUES)
            t = "string" if isinstance(vals[0], str) else ("boolean" if isinstance(vals[0], bool) else "integer")
            self.counts["named_enum"] = self.counts.get("named_enum", 0) + 1
            return {"type": t, "enum": list(vals)}
        if r < 0.78 and len(self.names) >= 2:
            self.counts["allOf"] = self.counts.get("allOf", 0) + 1
            o = self.object()
            return {"allOf": [self.ref(), o]}
        if r < 0.88 and len(self.names) >= 2:
            self.counts["named_union"] = self.counts.get("named_union", 0) + 1
            return {self.r.choice(["oneOf", "anyOf"]): [self.ref(), self.ref()]}
        if r < 0.94:
            return {"type": "array", "items": self.schema(1)}
        return self.prim()

    def spec(self, n_schemas=None, n_ops=None):
        n = n_schemas if n_schemas is not None else self.r.randint(2, 7)
        pool = ["Pet", "Owner", "Tag", "Order", "Item", "Node", "Tree", "Shape", "Circle", "Square", "Event", "Error"]
        self.names = self.r.sample(pool, n)
        schemas = {}
        declared = list(self.names)
        # references may point forward (cycles included)
        for nm in declared:
            schemas[nm] = self.component(nm)
        if self.feat("discriminator", 0.25) and len(declared) >= 3:
            a, b = declared[0], declared[1]
            for v, nm in (("a", a), ("b", b)):
                if schemas[nm].get("type") == "object":
                    schemas[nm]["properties"]["kind"] = {"type": "string", "const": v} if self.r.random() < 0.5 else {"type": "string"}
                    schemas[nm].setdefault("required", [])
                    if "kind" not in schemas[nm]["required"]:
                        schemas[nm]["required"].append("kind")
            if all(schemas[x].get("type") == "object" for x in (a, b)):
                schemas["Disc"] = {"oneOf": [{"$ref": f"#/components/schemas/{a}"}, {"$ref": f"#/components/schemas/{b}"}],
                                   "discriminator": {"propertyName": "kind", "mapping": {"a": f"#/components/schemas/{a}", "b": f"#/components/schemas/{b}"}}}
                self.names.append("Disc")
        paths = {}
        nops = n_ops if n_ops is not None else self.r.randint(1, 4)
        used = set()
        templates = ["/pets", "/pets/{petId}", "/orders/{order-id}/items/{n}", "/files/{name}.json", "/search", "/a/b"]
        for i in range(nops):
            t, m = self.r.choice(templates), self.r.choice(["get", "post", "put", "delete", "patch"])
            if (t, m) in used:
                continue
            used.add((t, m))
            import re
            params = [{"name": nm, "in": "path", "required": True, "schema": self.r.choice([{"type": "string"}, {"type": "integer"}])}
                      for nm in re.findall(r"\{([^}]+)\}", t)]
            for _ in range(self.r.randint(0, 2)):
                loc = self.r.choice(["query", "header"])
                pn = self.r.choice(["limit", "q", "X-Trace-Id", "tags", "sort-by", "If-Match"])
                if any(p["name"] == pn for p in params):
                    continue
                ps = self.r.choice([{"type": "string"}, {"type": "integer"}, {"type": "boolean"},
                                    {"type": "array", "items": {"type": "string"}}, {"type": "string", "enum": ["asc", "desc"]}])
                p = {"name": pn, "in": loc, "schema": ps}
                if self.r.random() < 0.3:
                    p["required"] = True
                if ps.get("type") == "array" and self.r.random() < 0.5:
                    p["explode"] = False
                params.append(p)
            op = {"operationId": f"op{i}{m}", "parameters": params, "responses": {}}
            if m in ("post", "put", "patch") and self.feat("body", 0.8):
                ct = self.r.choice(["application/json", "application/json", "application/x-www-form-urlencoded", "text/plain", "application/octet-stream"])
                bs = self.ref() if ct in ("application/json", "application/x-www-form-urlencoded") else {"type": "string"}
                op["requestBody"] = {"required": self.r.random() < 0.7, "content": {ct: {"schema": bs}}}
            for key in self.r.sample(["200", "201", "204", "400", "404", "4XX", "5XX", "default"], self.r.randint(1, 3)):
                resp = {"description": "r" + key}
                if key != "204" and self.r.random() < 0.8:
                    ct = self.r.choice(["application/json", "application/json", "text/plain"])
                    resp["content"] = {ct: {"schema": self.ref() if ct == "application/json" else {"type": "string"}}}
                op["responses"][key] = resp
            paths.setdefault(t, {})[m] = op
        return {"openapi": "3.1.0", "info": {"title": "Gen API", "version": "1.0.0"}, "paths": paths,
                "components": {"schemas": schemas}}


def gen_spec(seed, **kw):
    g = Gen(seed)
    s = g.spec(**kw)
    return s, g.counts
