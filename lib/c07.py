"""C07 — output is closed under references for every selection of operations; default scoping is minimal."""
import glob, itertools, json, os, random, re
import vlib, specgen
from vlib import Result, log
from arena import Arena
import c10

THEOREMS = ["C07_closed", "C07_operation_refs", "C07_minimal", "C07_selection_monotone", "C07_fuel_suffices", "C07_nonvacuous",
            "C07_dedup_removes_exactly", "C07_dedup_canonical_kept", "C07_dedup_unordered_removal_refuted", "C07_dedup_nonvacuous", "C07_dedup_shape_from_source"]
TARGETS = ["Props/C07.v", "Extract/C07.v"]


def ref(t):
    return {"$ref": f"#/components/schemas/{t}"}


OBJ = lambda **extra: {"type": "object", "properties": dict({"v": {"type": "string"}}, **extra)}

KINDS = {
    "object": lambda: {"Tgt": OBJ()},
    "strenum": lambda: {"Tgt": {"type": "string", "enum": ["a", "b"]}},
    "intenum": lambda: {"Tgt": {"type": "integer", "enum": [1, 2]}},
    "prim": lambda: {"Tgt": {"type": "string", "maxLength": 9}},
    "arr": lambda: {"Tgt": {"type": "array", "items": ref("TgtItem")}, "TgtItem": OBJ()},
    "map": lambda: {"Tgt": {"type": "object", "additionalProperties": ref("TgtItem")}, "TgtItem": OBJ()},
    "nullable": lambda: {"Tgt": {"oneOf": [ref("TgtItem"), {"type": "null"}]}, "TgtItem": OBJ()},
    "union": lambda: {"Tgt": {"oneOf": [ref("TgtA"), ref("TgtB")]}, "TgtA": OBJ(a={"type": "integer"}), "TgtB": OBJ(b={"type": "boolean"})},
    "anyunion": lambda: {"Tgt": {"anyOf": [ref("TgtA"), ref("TgtB")]}, "TgtA": OBJ(a={"type": "integer"}), "TgtB": OBJ(b={"type": "boolean"})},
    "allofchild": lambda: {"Tgt": {"allOf": [ref("TgtBase"), {"type": "object", "properties": {"extra": ref("TgtItem")}}]}, "TgtBase": OBJ(), "TgtItem": OBJ()},
    "discbase": lambda: {"Tgt": {"type": "object", "required": ["kind"], "properties": {"kind": {"type": "string"}},
                                 "discriminator": {"propertyName": "kind", "mapping": {"dog": "#/components/schemas/TgtDog", "cat": "#/components/schemas/TgtCat"}}},
                         "TgtDog": {"allOf": [ref("Tgt"), {"type": "object", "properties": {"bark": {"type": "boolean"}}}]},
                         "TgtCat": {"allOf": [ref("Tgt"), {"type": "object", "properties": {"lives": ref("TgtItem")}}]}, "TgtItem": OBJ()},
    "discbase3": lambda: {"Tgt": {"type": "object", "required": ["kind"], "properties": {"kind": {"type": "string"}},
                                  "discriminator": {"propertyName": "kind", "mapping": {"mid": "#/components/schemas/TgtMid", "leaf": "#/components/schemas/TgtLeaf"}}},
                          "TgtMid": {"allOf": [ref("Tgt"), {"type": "object", "properties": {"mid": {"type": "boolean"}}}]},
                          "TgtLeaf": {"allOf": [ref("TgtMid"), {"type": "object", "properties": {"leaf": ref("TgtItem")}}]}, "TgtItem": OBJ()},
    "discunion": lambda: {"Tgt": {"oneOf": [ref("TgtDog"), ref("TgtCat")], "discriminator": {"propertyName": "kind"}},
                          "TgtDog": {"type": "object", "required": ["kind"], "properties": {"kind": {"const": "dog"}, "bark": {"type": "boolean"}}},
                          "TgtCat": {"type": "object", "required": ["kind"], "properties": {"kind": {"const": "cat"}, "lives": ref("TgtItem")}}, "TgtItem": OBJ()},
}
OBJECT_LIKE = ("object", "allofchild")
SCALAR = ("strenum", "intenum", "prim")

# position -> (builder(kind) -> (extra schemas, path-item dict for /holder)) ; schema-level positions hang off Holder
SCHEMA_POS = {
    "prop": lambda: {"type": "object", "properties": {"t": ref("Tgt")}},
    "reqprop": lambda: {"type": "object", "required": ["t"], "properties": {"t": ref("Tgt")}},
    "item": lambda: {"type": "object", "properties": {"t": {"type": "array", "items": ref("Tgt")}}},
    "mapval": lambda: {"type": "object", "properties": {"t": {"type": "object", "additionalProperties": ref("Tgt")}}},
    "ownmap": lambda: {"type": "object", "properties": {"k": {"type": "integer"}}, "additionalProperties": ref("Tgt")},
    "mapofarr": lambda: {"type": "object", "properties": {"t": {"type": "object", "additionalProperties": {"type": "array", "items": ref("Tgt")}}}},
    "allof": lambda: {"allOf": [ref("Tgt"), {"type": "object", "properties": {"h": {"type": "integer"}}}]},
    "oneof": lambda: {"oneOf": [ref("Tgt"), ref("Side")]},
    "anyof": lambda: {"anyOf": [ref("Tgt"), ref("Side")]},
    "inlineoneof": lambda: {"type": "object", "properties": {"t": {"oneOf": [ref("Tgt"), {"type": "integer"}]}}},
    "nullableprop": lambda: {"type": "object", "properties": {"t": {"anyOf": [ref("Tgt"), {"type": "null"}]}}},
    "nullable_item": lambda: {"type": "object", "properties": {"t": {"type": ["array", "null"], "items": ref("Tgt")}}},
    "untyped_item": lambda: {"type": "object", "properties": {"t": {"items": ref("Tgt")}}},
    "nullable_obj_prop": lambda: {"type": ["object", "null"], "properties": {"t": ref("Tgt")}},
    "nested": lambda: {"type": "object", "properties": {"inner": {"type": "object", "properties": {"t": ref("Tgt")}}}},
    "nesteditem": lambda: {"type": "object", "properties": {"list": {"type": "array", "items": {"type": "object", "properties": {"t": ref("Tgt")}}}}},
    "nestedmap": lambda: {"type": "object", "properties": {"m": {"type": "object", "additionalProperties": {"type": "object", "properties": {"t": ref("Tgt")}}}}},
}
OP_POS = ["query", "header", "pathparam", "pathitem_query", "comp_param", "reqbody", "comp_reqbody", "respbody", "resp_array", "resp_default", "comp_response", "resp_map", "req_inline_prop",
          "resp_binary_404", "resp_binary_default", "resp_text_500", "resp_inline_relaxed", "resp_header"]


def build_spec(pos, kind):
    schemas = dict(KINDS[kind]())
    schemas["Side"] = OBJ(s={"type": "integer"})
    schemas["Other"] = OBJ(o={"type": "integer"})
    schemas["Unused"] = OBJ(u=ref("UnusedDep"))
    schemas["UnusedDep"] = OBJ()
    comps = {"schemas": schemas}
    ok200 = lambda sch: {"200": {"description": "ok", "content": {"application/json": {"schema": sch}}}}
    holder_op = {"operationId": "get_holder", "responses": ok200({"type": "object", "properties": {"fine": {"type": "boolean"}}})}
    item = {"get": holder_op}
    path = "/holder"
    if pos in SCHEMA_POS:
        schemas["Holder"] = SCHEMA_POS[pos]()
        holder_op["responses"] = ok200(ref("Holder"))
    elif pos == "inline_twin":
        # an inline schema with the same shape as a component that only the OTHER operation uses
        import copy
        schemas["Holder"] = {"type": "object", "properties": {"t": copy.deepcopy(schemas["Tgt"])}}
        holder_op["responses"] = ok200(ref("Holder"))
    elif pos in ("inline_twin_null", "inline_twin_null_mapval"):
        # the references of a named union written inline next to a null variant: the member is typed by the named union
        import copy
        u = copy.deepcopy(schemas["Tgt"])
        kw = "oneOf" if "oneOf" in u else "anyOf"
        u[kw] = u[kw] + [{"type": "null"}]
        schemas["Holder"] = {"type": "object", "properties": {"t": u if pos == "inline_twin_null" else {"type": "object", "additionalProperties": u}}}
        holder_op["responses"] = ok200(ref("Holder"))
    elif pos == "discmap":
        schemas["Holder"] = {"type": "object", "required": ["kind"], "properties": {"kind": {"type": "string"}},
                             "discriminator": {"propertyName": "kind", "mapping": {"x": "#/components/schemas/Tgt"}}}
        schemas["Tgt"] = {"allOf": [ref("Holder"), {"type": "object", "properties": {"extra": ref("TgtItem")}}]}
        schemas["TgtItem"] = OBJ()
        holder_op["responses"] = ok200(ref("Holder"))
    elif pos == "query":
        holder_op["parameters"] = [{"name": "q", "in": "query", "schema": ref("Tgt")}]
    elif pos == "header":
        holder_op["parameters"] = [{"name": "X-Q", "in": "header", "schema": ref("Tgt")}]
    elif pos == "pathparam":
        path = "/holder/{p}"
        holder_op["parameters"] = [{"name": "p", "in": "path", "required": True, "schema": ref("Tgt")}]
    elif pos == "pathitem_query":
        item["parameters"] = [{"name": "q", "in": "query", "schema": ref("Tgt")}]
    elif pos == "comp_param":
        comps["parameters"] = {"QParam": {"name": "q", "in": "query", "schema": ref("Tgt")}}
        holder_op["parameters"] = [{"$ref": "#/components/parameters/QParam"}]
    elif pos == "reqbody":
        item = {"post": holder_op}
        holder_op["requestBody"] = {"required": True, "content": {"application/json": {"schema": ref("Tgt")}}}
    elif pos == "req_inline_prop":
        item = {"post": holder_op}
        holder_op["requestBody"] = {"required": True, "content": {"application/json": {"schema": {"type": "object", "properties": {"t": ref("Tgt")}}}}}
    elif pos == "comp_reqbody":
        item = {"post": holder_op}
        comps["requestBodies"] = {"Body": {"required": True, "content": {"application/json": {"schema": ref("Tgt")}}}}
        holder_op["requestBody"] = {"$ref": "#/components/requestBodies/Body"}
    elif pos == "respbody":
        holder_op["responses"] = ok200(ref("Tgt"))
    elif pos == "resp_array":
        holder_op["responses"] = ok200({"type": "array", "items": ref("Tgt")})
    elif pos == "resp_map":
        holder_op["responses"] = ok200({"type": "object", "additionalProperties": ref("Tgt")})
    elif pos == "resp_default":
        holder_op["responses"]["default"] = {"description": "err", "content": {"application/json": {"schema": ref("Tgt")}}}
    elif pos == "resp_binary_404":
        holder_op["responses"]["404"] = {"description": "nf", "content": {"image/png": {"schema": ref("Tgt")}}}
    elif pos == "resp_binary_default":
        holder_op["responses"]["default"] = {"description": "err", "content": {"application/pdf": {"schema": ref("Tgt")}}}
    elif pos == "resp_text_500":
        holder_op["responses"]["500"] = {"description": "err", "content": {"text/plain": {"schema": ref("Tgt")}}}
    elif pos == "resp_header":
        # a schema referenced only from a response HEADER: the generator does not model response headers, so nothing uses it
        comps["headers"] = {"X-Comp": {"schema": ref("Tgt")}}
        holder_op["responses"] = {"200": {"description": "ok", "headers": {"X-Rate": {"schema": ref("Tgt")}, "X-Page": {"schema": {"type": "array", "items": ref("Tgt")}}, "X-C": {"$ref": "#/components/headers/X-Comp"}},
                                         "content": {"application/json": {"schema": {"type": "object", "properties": {"fine": {"type": "boolean"}}}}}}}
    elif pos == "resp_inline_relaxed":
        # an inline open enum (known values next to a free string) as a response body: its known-values enum is a helper
        # type that only the conversion of the body produces
        holder_op["responses"] = ok200({"anyOf": [{"type": "string", "enum": ["on", "off"]}, {"type": "string"}]})
        holder_op["responses"]["404"] = {"description": "nf", "content": {"application/json": {"schema": {"oneOf": [{"title": "Gone", "type": "object", "properties": {"t": ref("Tgt")}}, {"type": "integer"}]}}}}
    elif pos == "comp_response":
        comps["responses"] = {"Resp": {"description": "r", "content": {"application/json": {"schema": ref("Tgt")}}}}
        holder_op["responses"] = {"200": {"$ref": "#/components/responses/Resp"}}
    else:
        raise ValueError(pos)
    # the other operation's path item carries a parameter of its own: with --only / --exclude it must not drag its schema in
    schemas["OtherParam"] = {"type": "string", "enum": ["p", "q"]}
    comps.setdefault("parameters", {})["OtherShared"] = {"name": "osh", "in": "query", "schema": ref("OtherSharedKind")}
    schemas["OtherSharedKind"] = {"type": "string", "enum": ["s1", "s2"]}
    paths = {path: item, "/other": {"parameters": [{"name": "oq", "in": "query", "schema": ref("OtherParam")}, {"$ref": "#/components/parameters/OtherShared"}],
                                    "get": {"operationId": "other_op", "responses": ok200(ref("Tgt") if pos == "inline_twin" else ref("Other"))}},
             # an operation that refers to no schema at all: selecting it alone leaves the expanded set empty
             "/ping": {"get": {"operationId": "ping", "responses": {"204": {"description": "pong"}}}}}
    return {"openapi": "3.1.0", "info": {"title": "t", "version": "1"}, "paths": paths, "components": comps}


def applicable(pos, kind):
    if pos == "allof":
        return kind in ("object", "allofchild", "discbase", "discbase3")
    if pos == "discmap":
        return kind == "object"
    if pos == "resp_inline_relaxed":
        return kind in ("object", "strenum")
    if pos in ("inline_twin_null", "inline_twin_null_mapval"):
        return kind in ("union", "anyunion")
    if pos in ("pathparam",):
        return kind in SCALAR
    if pos in ("header",):
        return kind in SCALAR + ("arr0",)
    if pos in ("query", "pathitem_query", "comp_param"):
        return kind in SCALAR + ("object", "arr", "union", "nullable")
    return True


SELECTIONS = [("default", [], ["get_holder", "other_op", "ping"]), ("all", ["--all-schemas"], None),
              ("only", ["--only", "get_holder"], ["get_holder"]), ("exclude", ["--exclude", "other_op"], ["get_holder", "ping"]),
              ("only-ping", ["--only", "ping"], ["ping"])]


def twin_spec(groups, with_params):
    """several groups of operations with identical response sets (the response enums of a group are merged into one),
    next to request structs for path-item parameters"""
    schemas = {"JobSpec": {"type": "object", "required": ["command"], "properties": {"command": {"type": "string"}}},
               "Receipt": {"type": "object", "properties": {"id": {"type": "string"}}},
               "Job": {"type": "object", "properties": {"id": {"type": "string"}, "spec": ref("JobSpec")}},
               "Note": {"type": "object", "properties": {"text": {"type": "string"}}},
               "Lonely": {"type": "object", "properties": {"n": {"type": "integer"}}}}
    resp_of = [("201", "Receipt"), ("200", "Job"), ("202", "Note")]
    paths, ids = {}, []
    for g in range(groups):
        code, sch = resp_of[g]
        for k in range(3 if g == 1 else 2):
            item = {}
            if with_params:
                item["parameters"] = [{"name": "key", "in": "path", "required": True, "schema": {"type": "string"}}]
            op = {"operationId": f"grp{g}_op{k}", "responses": {code: {"description": "same in the whole group", "content": {"application/json": {"schema": ref(sch)}}}}}
            if g == 0:
                op["requestBody"] = {"required": True, "content": {"application/json": {"schema": ref("JobSpec")}}}
            item["post" if g == 0 else "get"] = op
            paths[f"/g{g}/r{k}" + ("/{key}" if with_params else "")] = item
            ids.append(op["operationId"])
    paths["/solo/{w}"] = {"delete": {"operationId": "solo_op", "parameters": [{"name": "w", "in": "path", "required": True, "schema": {"type": "string"}},
                                                                           {"name": "drain", "in": "query", "schema": {"type": "boolean"}}], "responses": {"204": {"description": "gone"}}}}
    ids.append("solo_op")
    return {"openapi": "3.1.0", "info": {"title": "twins", "version": "1"}, "paths": paths, "components": {"schemas": schemas}}, ids


def twin_cases():
    out = []
    for groups in (1, 2, 3):
        for wp in (False, True):
            spec, ids = twin_spec(groups, wp)
            sels = [("default", [], ids), ("all", ["--all-schemas"], None), ("only", ["--only", ",".join(ids[:3])], ids[:3]),
                    ("exclude", ["--exclude", ids[0]], ids[1:])]
            if groups >= 2:
                sels.append(("exclude-g1", ["--exclude", "grp1_op0"], [i for i in ids if i != "grp1_op0"]))
            for (sel, flags, sids) in sels:
                out.append({"name": f"twins{groups}{'p' if wp else ''}/{sel}", "pos": "twins", "kind": f"groups={groups}", "sel": sel, "flags": flags, "ids": sids, "spec": spec})
    return out


# ---------------------------------------------------------------- spec -> model input

def resolve_comp(spec, obj, section):
    for _ in range(20):
        if isinstance(obj, dict) and "$ref" in obj and isinstance(obj["$ref"], str) and obj["$ref"].startswith(f"#/components/{section}/"):
            obj = ((spec.get("components") or {}).get(section) or {}).get(obj["$ref"].rsplit("/", 1)[-1])
        else:
            break
    return obj if isinstance(obj, dict) and "$ref" not in obj else None


METHODS = ("get", "put", "post", "delete", "options", "head", "patch", "trace")


def op_schemas(spec, op, item=None):
    """the schema positions SchemaRegistry::reachable looks at for one operation: collect_refs_from_operation
    (own parameters, request body media types, response media types) and, since fix 637eba6, the path item's parameters"""
    out = []
    for p in list((item or {}).get("parameters") or []) + list(op.get("parameters") or []):
        rp = resolve_comp(spec, p, "parameters")
        if rp and isinstance(rp.get("schema"), dict):
            out.append(rp["schema"])
    rb = resolve_comp(spec, op.get("requestBody"), "requestBodies") if op.get("requestBody") else None
    if rb:
        for mt in (rb.get("content") or {}).values():
            if isinstance(mt, dict) and isinstance(mt.get("schema"), dict):
                out.append(mt["schema"])
    for r in (op.get("responses") or {}).values():
        rr = resolve_comp(spec, r, "responses")
        if rr:
            for mt in (rr.get("content") or {}).values():
                if isinstance(mt, dict) and isinstance(mt.get("schema"), dict):
                    out.append(mt["schema"])
    return out


def model_line(spec, selected_ids):
    """-> (names, driver input) for the operations whose operationId is selected (None = all)"""
    names, tops, enc = c10.ast_of_spec_enc(spec)
    ops = []
    for path, item in (spec.get("paths") or {}).items():
        if not isinstance(item, dict):
            continue
        for m in METHODS:
            op = item.get(m)
            if isinstance(op, dict) and (selected_ids is None or op.get("operationId") in selected_ids):
                ops.append("[" + ",".join(x for x in (enc(s) for s in op_schemas(spec, op, item)) if x) + "]")
    return names, tops + "#" + "".join(ops)


# ---------------------------------------------------------------- emitted code -> definitions / mentions

EXTERNAL = {"String", "Vec", "Option", "Box", "Self", "Result", "bool", "i8", "i16", "i32", "i64", "i128", "u8", "u16", "u32", "u64", "u128",
            "isize", "usize", "f32", "f64", "str", "char", "HashMap", "BTreeMap", "HashSet", "BTreeSet", "Cow", "Value", "Bytes", "Url", "Uuid",
            "Serialize", "Deserialize", "Validate", "Default", "Debug", "Clone", "PartialEq", "Eq", "Hash", "T", "S", "D", "E", "Client", "Method",
            "HeaderMap", "HeaderName", "HeaderValue", "StatusCode", "Response", "Regex", "LazyLock", "IndexMap", "NaiveDate", "DateTime", "Utc"}


def defs_and_mentions(dump):
    defs, mentions = [], []
    for it in dump.get("items", []):
        if it["kind"] in ("struct", "enum", "type"):
            defs.append(it["name"])
        fl = []
        if it["kind"] == "struct":
            fl = it["fields"]
        elif it["kind"] == "enum":
            fl = [f for v in it["variants"] for f in v["fields"]]
        elif it["kind"] == "type":
            fl = [{"mentions": it.get("mentions") or re.findall(r"[A-Za-z_][\w:]*", it["ty"])}]
        for f in fl:
            for m in f.get("mentions", []):
                if "::" in m or m in EXTERNAL or m.startswith("'"):
                    continue
                mentions.append((it["name"], m))
    return defs, mentions


def main(tier, seed, replay=None):
    res = Result("C07", tier, seed)
    vlib.build_repo()
    vlib.build_vtool()
    rep = vlib.translate()
    r = rep.get("Dedup.v", {"ok": False, "error": "missing"})
    res.oblige("translator: Gen/Dedup.v regenerated from current source (response_enum.rs has the modelled shape)", r.get("ok"), r.get("error", ""))
    coq_ok, out = vlib.standard_coq_obligations(res, TARGETS, THEOREMS, expect_closed=8)
    exe = vlib.ocaml_build("c07")
    res.oblige("extracted model (collect, seeds, reach) builds", exe is not None)
    rng = random.Random(seed * 733 + 7)
    cases = []
    for pos in list(SCHEMA_POS) + ["discmap", "inline_twin", "inline_twin_null", "inline_twin_null_mapval"] + OP_POS:
        for kind in KINDS:
            if not applicable(pos, kind):
                continue
            spec = build_spec(pos, kind)
            for (sel, flags, ids) in SELECTIONS:
                cases.append({"name": f"{pos}/{kind}/{sel}", "pos": pos, "kind": kind, "sel": sel, "flags": flags, "ids": ids, "spec": spec})
    cases.extend(twin_cases())
    n_matrix = len(cases)
    # random compositions from the feature grammar, all four selections on the first operation id
    for i in range(12 if tier == "quick" else 150):
        spec, _ = specgen.gen_spec(seed * 311 + i)
        opids = [op.get("operationId") for it in spec.get("paths", {}).values() if isinstance(it, dict) for m, op in it.items() if m in METHODS and isinstance(op, dict)]
        opids = [o for o in opids if o]
        if not opids or any(m in ("options", "trace") for it in spec.get("paths", {}).values() if isinstance(it, dict) for m in it):
            continue
        first = opids[0]
        for (sel, flags, ids) in [("default", [], opids), ("all", ["--all-schemas"], None)]:
            cases.append({"name": f"gen{i}/{sel}", "pos": "grammar", "kind": "grammar", "sel": sel, "flags": flags, "ids": ids, "spec": spec})
    if replay:
        r = json.load(open(replay))
        if "spec" in r:
            cases = [{"name": "replay", "pos": r.get("pos"), "kind": r.get("kind"), "sel": r.get("sel"), "flags": r.get("flags", []), "ids": r.get("ids"), "spec": r["spec"]}]
    d = vlib.scratch("C07")

    def one(i):
        c = cases[i]
        base = os.path.join(d, f"c{i}")
        os.makedirs(base, exist_ok=True)
        sp = os.path.join(base, "spec.json")
        json.dump(c["spec"], open(sp, "w"))
        outp = os.path.join(base, "out")
        rc, txt = vlib.oas(["generate", "client-mod", "-i", sp, "-o", outp, "-q", "--no-helpers"] + c["flags"], timeout=120)
        return rc, txt[-300:], outp
    results = vlib.pmap(one, range(len(cases)))
    dumps = vlib.vtool_lines("dump", [os.path.join(r[2], "types.rs") for r in results])
    lines, names_of = [], []
    for c in cases:
        names, line = model_line(c["spec"], c["ids"])
        names_of.append(names)
        lines.append(line)
    model = vlib.run_driver(exe, lines) if exe else []
    viol = []
    n_closed = n_min = n_emitted = n_unclosed_model = 0
    gen_fail = 0
    reach_not_emitted = {}
    for i, c in enumerate(cases):
        rc, txt, outp = results[i]
        dump = dumps[i] if i < len(dumps) else {"error": "no dump"}
        if rc != 0 or "error" in dump:
            gen_fail += 1
            if c["pos"] != "grammar":
                viol.append((c, f"{c['name']}: generation failed rc={rc} {txt.strip()[-200:]} {dump.get('error', '')}", None))
            continue
        defs, mentions = defs_and_mentions(dump)
        n_emitted += len(defs)
        dup = sorted({x for x in defs if defs.count(x) > 1})
        if dup:
            viol.append((c, f"{c['name']}: type(s) defined more than once: {dup}", None))
        dset = set(defs)
        undefined = sorted({(a, b) for (a, b) in mentions if b not in dset})
        n_closed += 1
        if undefined:
            viol.append((c, f"{c['name']}: emitted types mention undefined type(s): {undefined[:4]}", classify_closure(c, undefined)))
        m = model[i] if i < len(model) else "ERR missing"
        mm = re.match(r"R ([\d ]*)// closed (\d)", m)
        if not mm:
            res.oblige(f"model evaluates on {c['name']}", False, m)
            continue
        if mm.group(2) != "1":
            n_unclosed_model += 1
        names = names_of[i]
        R = {names[int(x)] for x in mm.group(1).split() if int(x) < len(names)}
        if c["sel"] != "all":
            n_min += 1
            schema_types = dset & set(names)
            extra = sorted(schema_types - R)
            if extra and c["ids"]:
                # a type that carries a component's name may be an inline type that took the name of an equal-shaped
                # component: it is "used" if the selected operations' own types reach it in the emitted mention graph
                roots = [x for x in dset if any(x.startswith(pascal(i)) for i in c["ids"])]
                adj = {}
                for (a, b) in mentions:
                    adj.setdefault(a, set()).add(b)
                seen, todo = set(roots), list(roots)
                while todo:
                    u = todo.pop()
                    for v in adj.get(u, ()):
                        if v not in seen:
                            seen.add(v)
                            todo.append(v)
                extra = [x for x in extra if x not in seen]
            if extra:
                viol.append((c, f"{c['name']}: emitted schema type(s) not used by any selected operation (model's expanded set): {extra}", None))
            for x in sorted(R - dset):
                reach_not_emitted[x] = reach_not_emitted.get(x, 0) + 1
    res.oblige(f"model: the saturation closed within its fuel on all {len(cases)} cases (hypothesis of C07_closed)", n_unclosed_model == 0, f"{n_unclosed_model} cases")
    # ---- merged response enums: the emitted groups (operations returning one enum) against the model's canonical choice
    cq, cidx = [], []
    for i, c in enumerate(cases):
        if c["pos"] != "twins" or results[i][0] != 0:
            continue
        try:
            ctext = open(os.path.join(results[i][2], "client.rs")).read()
        except OSError:
            continue
        groups = {}
        for m in re.finditer(r"request:\s*(\w+)Request\s*,?\s*\)\s*->\s*anyhow::Result<\s*(\w+)\s*>", ctext):
            groups.setdefault(m.group(2), []).append(m.group(1) + "Response")
        for ret, members in sorted(groups.items()):
            cq.append("canon " + " ".join(f"{k}:{n}" for k, n in enumerate(members)))
            cidx.append((i, ret, members))
    canon_dis, n_groups = [], 0
    if exe and cq:
        for (i, ret, members), r in zip(cidx, vlib.run_driver(exe, cq)):
            n_groups += 1
            mm = re.match(r"C (\S+) // ([\d ]*)$", r)
            if not mm:
                canon_dis.append(f"{cases[i]['name']}: model answer {r!r}")
                continue
            dropped = {members[int(x)] for x in mm.group(2).split()}
            dset = set(defs_and_mentions(dumps[i])[0]) if "error" not in dumps[i] else set()
            if mm.group(1) != ret:
                canon_dis.append(f"{cases[i]['name']}: operations {members} return {ret}, the model's canonical member is {mm.group(1)}")
            elif ret not in dset or (dropped & dset):
                canon_dis.append(f"{cases[i]['name']}: group {members}: emitted {sorted(set(members) & dset)}, model keeps {ret} and drops {sorted(dropped)}")
    res.oblige(f"correspondence: merged response enums (which member of a group survives, which are dropped) = extracted model (canonical / doomed) on {n_groups} groups", not canon_dis, "; ".join(canon_dis[:3]))
    for msg in canon_dis[:3]:
        viol.append((cases[[x for x in range(len(cases)) if cases[x]['name'] == msg.split(':')[0]][0]], "response-enum merge: " + msg, None))
    # ---- rustc on whole modules (types.rs + client.rs)
    good = [i for i in range(len(cases)) if results[i][0] == 0]
    pick = good if tier != "quick" else sorted(rng.sample(good, min(len(good), 70)))
    ar = Arena("c07")
    for i in pick:
        ar.add_case(i, results[i][2])
    ok, failed, err = ar.build_bisect(lambda cs: "fn main() {}\n", sub="check")
    flagged = {id(v[0]) for v in viol}
    for ci, diags in failed.items():
        c = cases[ci]
        codes = sorted({dg["code"] or "?" for dg in diags})
        closure_codes = [x for x in codes if x in ("E0412", "E0425", "E0433", "E0428", "E0432")]
        if closure_codes and id(c) not in flagged:
            viol.append((c, f"{c['name']}: rustc: {closure_codes} {diags[0]['message'][:160]}", classify_closure(c, [])))
    res.oblige(f"arena: rustc name resolution on {len(pick)} whole client-mod outputs", ok or bool(failed), err[:300])
    res.counts.update({"evaluations": len(cases), "matrix_cases": n_matrix, "distinct_nontrivial": n_closed, "comparisons": n_closed + n_min,
                       "traces_validated_against_impl": n_closed, "exhaustive": True, "emitted_type_items": n_emitted,
                       "generator_failures_on_grammar_specs": gen_fail, "reachable_in_model_but_no_item": reach_not_emitted,
                       "rustc_checked_modules": len(pick), "merged_response_groups_compared": n_groups,
                       "rule": "exhaustive matrix {reference position: 17 schema-level positions (incl. nullable / untyped array items), discriminator mapping, an inline twin of a component only another operation uses, one to three groups of operations with identical response sets (merged response enums) next to path-item parameter structs, 16 operation-level positions incl. binary / text media types on non-success and default responses; the unselected operation's path item has parameters of its own} x {12 kinds of referenced schema} x {default, --all-schemas, --only, --exclude} (inapplicable pairs skipped), plus feature-grammar specs; client-mod output read back with syn: every type name mentioned by a struct field / enum variant / alias is defined exactly once in types.rs or is external; with default scoping every emitted component-schema type lies in the extracted model's expanded set; rustc name resolution (E0412/E0425/E0428/E0432/E0433) on whole modules (sample in quick, all in thorough)"})
    for c in cases[:4]:
        res.sample({"case": c["name"], "flags": c["flags"]})
    res.cov["trusted_base"] = vlib.COMMON_TRUSTED + [
        "coq/Model/Boxing.v: hand model of collect / collect_refs_from_operation / reachable (petgraph Dfs by contract: visits exactly the nodes reachable from the start)",
        "coq/Model/Dedup.v: hand model of ResponseEnumDeduplicator (signature, canonical member, removal by descending index); Vec::remove by contract",
        "lib/c07.py model_line / op_schemas and lib/c10.py ast_of_spec: JSON -> model input (which positions of an operation are looked at)",
        "tools/vtool dump (syn) for definitions and mentions; rustc name resolution in the arena"]
    res.assumptions = ["closure is proved for the model's expanded set under the hypothesis that mentions follow recorded dependencies and operation-level mentions are seeds; both hypotheses are what the matrix observes on the emitted code (a reference position the collector does not look at shows up as an undefined type)",
                       "type names are chosen so that the naming pipeline is the identity on them; naming collisions are C09's subject"]
    kf = {k["key"]: k["text"] for k in vlib.known_findings("C07")}
    seen_known, real = set(), []
    for (c, dsc, cls) in viol:
        if cls and cls in kf:
            seen_known.add(cls)
        else:
            real.append((c, dsc + (f" [unlisted class {cls}]" if cls else "")))
    for k in sorted(seen_known):
        res.known(k, kf[k])
    for (c, dsc) in real[:3]:
        res.violation(dsc, {k: c.get(k) for k in ("name", "pos", "kind", "sel", "flags", "ids", "spec")})
    if len(real) > 3:
        log(f"  ... {len(real)} violating cases in total: " + ", ".join(c["name"] for c, _ in real[:40]))
    broken = [o for o in res.obligations if not o[1]]
    if broken and not real:
        res.violation("proof obligation no longer checks: " + "; ".join(o[0] for o in broken),
                      {"broken": [[o[0], o[2]] for o in broken]}, no_input=True)
    return res.finish()


def pascal(op_id):
    return "".join(w[:1].upper() + w[1:] for w in re.split(r"[_\-\s]+", op_id) if w)


def classify_closure(c, undefined):
    return None
