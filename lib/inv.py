"""inventory obligations: the translator's syntactic inventories vs the committed, reviewed lists"""
import json, os, subprocess
import vlib


def current():
    vlib.build_vtool()
    p = subprocess.run([vlib.VTOOL, "inventory", vlib.REPO], stdout=subprocess.PIPE, text=True, timeout=600)
    return json.loads(p.stdout)


def compare(kind, cur):
    """returns (ok, detail): the set of sites (and counts) equals the committed list"""
    base = json.load(open(os.path.join(vlib.VERIF, "inventory", f"{kind}.json")))
    now = cur["sites"].get(kind, {})
    new = sorted(k for k in now if k not in base or now[k] > base[k]["count"])
    gone = sorted(k for k in base if k not in now)
    ok = not new and not cur["errors"]
    detail = ""
    if new:
        detail += f"{len(new)} site(s) not in the reviewed list: " + "; ".join(new[:4])
    if cur["errors"]:
        detail += " parse errors: " + "; ".join(cur["errors"][:2])
    return ok, detail, len(now), gone
