"""C13 — type sharing is sound: only wire-equivalent schemas share a Rust type; adding an unrelated schema never
changes the type a use site gets."""
import itertools, json, os, random, re
import vlib
from vlib import Result, log

THEOREMS = ["C13_enum_key_sound", "C13_union_key_sound", "C13_canonical_sound", "C13_value_union_key_sound", "C13_response_signature_sound", "C13_response_variant_media", "C13_signature_nonvacuous", "C13_old_enum_key_refuted", "C13_old_union_key_refuted", "C13_old_value_union_key_refuted", "C13_nonvacuous", "C13_canonical_nonvacuous"]
TARGETS = ["Props/C13.v"]


def ref(t):
    return {"$ref": f"#/components/schemas/{t}"}


# ---------------------------------------------------------------- near-equal schema families
def families():
    fam = {}
    fam["strenum"] = [
        {"type": "string", "enum": ["red", "green"]},
        {"type": "string", "enum": ["green", "red"]},
        {"type": "string", "enum": ["red", "green", "blue"]},
        {"type": "string", "enum": ["red", "Green"]},
        {"type": "string", "enum": ["red", "green"], "description": "colours of the thing"},
        {"type": "string", "enum": ["red"]},
        {"type": ["string", "null"], "enum": ["red", "green", None]},
    ]
    fam["intenum"] = [
        {"type": "integer", "enum": [1, 2, 3]},
        {"type": "integer", "enum": [3, 2, 1]},
        {"type": "integer", "enum": [10, 20]},
        {"type": "integer", "enum": [1, 2]},
        {"type": "number", "enum": [1.5, 2.5]},
        {"type": "integer", "enum": [7]},
    ]
    fam["mixenum"] = [
        {"enum": ["on", "off"]},
        {"enum": ["on", "off", 1]},
        {"enum": ["on", "off", True]},
        {"type": "boolean", "enum": [True]},
        {"type": "boolean", "enum": [False]},
        {"enum": ["on", "off", "1"]},
    ]
    fam["object"] = [
        {"type": "object", "properties": {"x": {"type": "string"}, "y": {"type": "integer"}}},
        {"type": "object", "properties": {"y": {"type": "integer"}, "x": {"type": "string"}}},
        {"type": "object", "properties": {"x": {"type": "integer"}, "y": {"type": "integer"}}},
        {"type": "object", "properties": {"x": {"type": "string"}, "y": {"type": "integer"}}, "required": ["x"]},
        {"type": "object", "properties": {"x": {"type": "string"}, "y": {"type": "integer"}}, "required": ["x", "y"]},
        {"type": "object", "properties": {"x": {"type": "string"}, "y": {"type": "integer"}}, "required": ["y", "x"]},
        {"type": "object", "properties": {"x": {"type": "string"}, "y": {"type": "integer"}, "z": {"type": "boolean"}}},
        {"type": "object", "properties": {"x": {"type": "string"}, "y": {"type": "integer"}}, "description": "a point"},
        {"type": "object", "properties": {"x": {"type": "string"}, "y": {"type": "integer"}}, "additionalProperties": False},
        {"type": "object", "properties": {"x": {"type": "string", "default": "d"}, "y": {"type": "integer"}}},
        {"type": "object", "properties": {"x": {"type": "string", "maxLength": 3}, "y": {"type": "integer"}}},
    ]
    # members whose NAMES are annotation keywords of JSON Schema (they are properties here, not annotations)
    fam["kwprops"] = [
        {"type": "object", "properties": {"name": {"type": "string"}}, "additionalProperties": False},
        {"type": "object", "properties": {"name": {"type": "string"}, "title": {"type": "string"}}, "additionalProperties": False},
        {"type": "object", "properties": {"name": {"type": "string"}, "description": {"type": "string"}}, "additionalProperties": False},
        {"type": "object", "properties": {"name": {"type": "string"}, "example": {"type": "integer"}}, "additionalProperties": False},
        {"type": "object", "properties": {"name": {"type": "string"}, "default": {"type": "boolean"}, "enum": {"type": "string"}}, "additionalProperties": False},
        {"type": "object", "title": "Labelled", "description": "only the annotations differ", "properties": {"name": {"type": "string"}}, "additionalProperties": False},
    ]
    # primitives and their array / nullable wrappers (response sets that differ only by a wrapper)
    fam["prim"] = [
        {"type": "string"}, {"type": "array", "items": {"type": "string"}}, {"type": "integer"}, {"type": "array", "items": {"type": "integer"}},
        {"type": ["string", "null"]}, {"type": "array", "items": {"type": "array", "items": {"type": "string"}}},
    ]
    fam["union"] = [
        {"oneOf": [ref("Ua"), ref("Ub")]},
        {"oneOf": [ref("Ub"), ref("Ua")]},
        {"oneOf": [ref("Ua"), ref("Ub"), {"type": "string"}]},
        {"oneOf": [ref("Ua"), ref("Ub"), {"type": "integer"}]},
        {"oneOf": [ref("Ua"), ref("Ub"), ref("Uc")]},
        {"anyOf": [ref("Ua"), ref("Ub")]},
        {"oneOf": [ref("Ua"), ref("Ub")], "discriminator": {"propertyName": "kind"}},
        {"oneOf": [ref("Ua"), ref("Uc")]},
        {"oneOf": [ref("Ua"), {"type": "string"}]},
        {"oneOf": [ref("Ua"), {"type": "integer"}]},
    ]
    # unions of values: const / enum variants, with and without an open variant next to them
    fam["valunion"] = [
        {"type": "string", "enum": ["a", "b"]},
        {"oneOf": [{"const": "a"}, {"const": "b"}]},
        {"oneOf": [{"const": "a"}, {"const": "b"}, {"type": "integer"}]},
        {"anyOf": [{"const": "a"}, {"const": "b"}, {"type": "integer"}]},
        {"oneOf": [{"const": "a"}, {"const": "b"}, {"type": "boolean"}]},
        {"oneOf": [{"type": "string", "enum": ["a", "b"]}, {"type": "integer"}]},
        {"oneOf": [{"const": "a"}, {"const": "b"}, {"type": "object", "properties": {"k": {"type": "string"}}}]},
    ]
    fam["array"] = [
        {"type": "array", "items": {"type": "string", "enum": ["p", "q"]}},
        {"type": "array", "items": {"type": "string", "enum": ["p", "q", "r"]}},
        {"type": "array", "items": {"type": "integer", "enum": [4, 5]}},
        {"type": "array", "items": {"type": "integer", "enum": [4, 6]}},
        {"type": "array", "items": {"type": "object", "properties": {"k": {"type": "string"}}}},
        {"type": "array", "items": {"type": "object", "properties": {"k": {"type": "integer"}}}},
    ]
    return fam


SUPPORT = {
    "Ua": {"type": "object", "required": ["kind"], "properties": {"kind": {"const": "a"}, "va": {"type": "string"}}},
    "Ub": {"type": "object", "required": ["kind"], "properties": {"kind": {"const": "b"}, "vb": {"type": "integer"}}},
    "Uc": {"type": "object", "required": ["kind"], "properties": {"kind": {"const": "c"}, "vc": {"type": "boolean"}}},
}

# use sites: each places a schema S under a given tag (A or B) and returns (schemas, paths, root locator)
SITES = ["prop", "named", "item", "nested", "query", "respbody", "reqbody"]


def place(site, tag, S, schemas, paths):
    """adds the schema at the site; returns a locator (kind, type name, field) of the use site in the emitted code"""
    if site == "prop":
        schemas[f"Hold{tag}"] = {"type": "object", "properties": {f"f{tag.lower()}": S, "other": {"type": "boolean"}}}
        return ("field", f"Hold{tag}", f"f{tag.lower()}")
    if site == "named":
        schemas[f"Named{tag}"] = S
        schemas[f"User{tag}"] = {"type": "object", "properties": {"n": ref(f"Named{tag}")}}
        return ("field", f"User{tag}", "n")
    if site == "item":
        schemas[f"List{tag}"] = {"type": "object", "properties": {f"items{tag.lower()}": {"type": "array", "items": S}}}
        return ("field", f"List{tag}", f"items{tag.lower()}")
    if site == "nested":
        schemas[f"Outer{tag}"] = {"type": "object", "properties": {"inner": {"type": "object", "properties": {f"deep{tag.lower()}": S}}}}
        return ("field", f"Outer{tag}", "inner")
    op = {"A": "alpha", "B": "bravo"}[tag]
    Op = op.capitalize()
    if site == "query":
        paths[f"/q{tag.lower()}"] = {"get": {"operationId": op, "parameters": [{"name": f"p{tag.lower()}", "in": "query", "schema": S}],
                                     "responses": {"204": {"description": "none"}}}}
        return ("field", f"{Op}RequestQuery", f"p{tag.lower()}")
    if site == "respbody":
        paths[f"/r{tag.lower()}"] = {"get": {"operationId": op, "responses": {"200": {"description": "ok", "content": {"application/json": {"schema": S}}},
                                                                                                 "404": {"description": "nf"}}}}
        return ("type", f"{Op}Request", None)
    if site == "reqbody":
        paths[f"/b{tag.lower()}"] = {"post": {"operationId": op, "requestBody": {"required": True, "content": {"application/json": {"schema": S}}},
                                              "responses": {"204": {"description": "none"}}}}
        return ("field", f"{Op}Request", "body")
    raise ValueError(site)


def make_spec(placements):
    schemas, paths = dict(SUPPORT), {}
    locs = []
    for (site, tag, S) in placements:
        locs.append(place(site, tag, S, schemas, paths))
    spec = {"openapi": "3.1.0", "info": {"title": "t", "version": "1"}, "paths": paths, "components": {"schemas": schemas}}
    return spec, locs


# ---------------------------------------------------------------- emitted text -> items -> normalised closure

def split_items(text):
    items, cur, depth_open = [], [], False
    for line in text.split("\n"):
        if not cur and (not line.strip() or line.startswith("//") or line.startswith("#![")):
            continue
        cur.append(line)
        if line.startswith("#[") and not depth_open and line.rstrip().endswith("]"):
            continue
        if line.startswith("#[") and not line.rstrip().endswith("]"):
            depth_open = "attr"
            continue
        if depth_open == "attr":
            if line.startswith(")]") or line.startswith("]"):
                depth_open = False
            continue
        if line == "}" or (not line.startswith(" ") and line.rstrip().endswith(";")) or (not line.startswith(" ") and line.rstrip().endswith("{}")) or (not line.startswith(" ") and line.rstrip().endswith("}") and "{" in line):
            items.append("\n".join(cur))
            cur = []
    if cur:
        items.append("\n".join(cur))
    return items


def subject(item):
    body = re.sub(r"(?s)#\[[^\]]*\]", "", item)
    m = re.search(r"(?m)^(?:pub(?:\([a-z]+\))? )?(struct|enum|type|const|static|fn|trait)\s+([A-Za-z_]\w*)", body)
    if m:
        return m.group(1), m.group(2)
    m = re.search(r"(?m)^impl(?:<[^>]*>)?\s+(?:[\w:<>',\s]+?\s+for\s+)?([A-Za-z_]\w*)", body)
    if m:
        return "impl", m.group(1)
    return "other", None


def strip_noise(item):
    lines = [l for l in item.split("\n") if not l.strip().startswith("///") and not l.strip().startswith("//!")]
    t = "\n".join(lines)
    t = re.sub(r"(?s)#\[derive\([^\]]*\)\]\n?", "", t)
    t = re.sub(r'(?s)#\[doc\s*=\s*"(?:[^"\\]|\\.)*"\]\n?', "", t)
    t = re.sub(r"(?m)^#\[serde_with::skip_serializing_none\]\n", "", t)   # follows request/response usage, not sharing
    for _ in range(3):
        t = re.sub(r"\bBox<([^<>]*(?:<[^<>]*>)?[^<>]*)>", r"\1", t)      # Box is not on the wire
    t = re.sub(r'(?m)^\s*#\[validate\((?:[^"\]]|"(?:[^"\\]|\\.)*")*\)\]\n', "", t)
    return t


def canon_item(it):
    """wire-neutral presentation choices erased: the order of unit variants of a value enum (and of the arms of its
    Display / match tables) and the position of #[default]"""
    lines = it.split("\n")
    head = next((i for i, l in enumerate(lines) if re.match(r"^(pub(\([a-z]+\))? )?enum \w+ \{$", l)), None)
    if head is not None and lines[-1] == "}":
        body = lines[head + 1:-1]
        chunks, cur = [], []
        for l in body:
            if l.strip() == "#[default]":
                continue
            if re.match(r"^    \w+,$", l):
                # the variant identifier is not on the wire when a rename carries the value
                cur.append("    _," if any("rename" in x for x in cur) else l)
                chunks.append("\n".join(cur))
                cur = []
            else:
                cur.append(l)
        if not cur and chunks:            # only unit variants
            return "\n".join(lines[:head + 1] + sorted(chunks) + ["}"])
        return "\n".join(l for l in lines if l.strip() != "#[default]")
    if lines and lines[0].startswith("impl") and any(re.match(r"^\s+Self::\w+ => ", l) for l in lines):
        out, run = [], []
        for l in lines:
            if re.match(r"^\s+Self::\w+ => .*,$", l):
                run.append(re.sub(r"Self::\w+ => write!", "Self::_ => write!", l))
            else:
                out.extend(sorted(run))
                run = []
                out.append(l)
        out.extend(sorted(run))
        return "\n".join(out)
    return it


def closure_text(text, root):
    """normalised text of every item about `root` and the emitted types it mentions (type names replaced by placeholders)"""
    items = [canon_item(strip_noise(i)) for i in split_items(text)]
    by_subject = {}
    for it in items:
        k, s = subject(it)
        # the named support schemas are common to both use sites: they stay opaque (a schema that refers to them,
        # e.g. through a discriminator, is not "unrelated" to them)
        if s and s not in SUPPORT and k in ("struct", "enum", "type", "impl"):
            by_subject.setdefault(s, []).append(it)
    if root not in by_subject:
        return None, []
    order, todo = [], [root]
    while todo:
        n = todo.pop(0)
        if n in order:
            continue
        order.append(n)
        for it in by_subject[n]:
            for w in re.findall(r"\b[A-Z]\w*\b", it):
                if w in by_subject and w not in order and w not in todo:
                    todo.append(w)
    names = {n: f"T{i}" for i, n in enumerate(order)}
    out = []
    for n in order:
        for it in by_subject[n]:
            out.append(re.sub(r"\b[A-Z]\w*\b", lambda m: names.get(m.group(0), m.group(0)), it))
    return "\n".join(out), order


def field_type(text, type_name, field):
    items = split_items(text)
    for it in items:
        k, s = subject(it)
        if k == "struct" and s == type_name:
            m = re.search(r"(?m)^\s+pub(?:\([a-z]+\))? (?:r#)?" + re.escape(field) + r": (.*),$", it)
            if m:
                return m.group(1)
    return None


def site_text(text, loc):
    """normalised description of what the use site names: the field's type expression with every emitted type it
    mentions replaced by that type's normalised closure"""
    kind, tname, field = loc
    if kind == "type":
        ct, order = closure_text(text, tname)
        return ct
    ty = field_type(text, tname, field)
    if ty is None:
        return None
    for _ in range(3):
        ty = re.sub(r"\bBox<([^<>]*(?:<[^<>]*>)?[^<>]*)>", r"\1", ty)
    parts = []
    expr = ty
    for w in dict.fromkeys(re.findall(r"\b[A-Z]\w*\b", ty)):
        ct, order = closure_text(text, w)
        if ct is not None:
            expr = re.sub(r"\b" + re.escape(w) + r"\b", "<T>", expr)
            parts.append(ct)
    return expr + "\n" + "\n----\n".join(parts)


def serde_view(t):
    """the closure without the Display / FromStr impls of value enums: those conversions carry path and header values;
    the use sites of this check (JSON bodies, members, items, query structs) are all encoded through serde"""
    return re.sub(r"(?ms)^impl core::(?:fmt::Display|str::FromStr) for \w+ \{\n.*?^\}\n?", "", t).strip()


def wire_names(text_closure):
    return sorted(set(re.findall(r'rename = "((?:[^"\\]|\\.)*)"', text_closure or "")) | set(re.findall(r'alias = "((?:[^"\\]|\\.)*)"', text_closure or "")))


def scenarios():
    """(name, schemas of the spec alone, schemas ADDED by the unrelated component, locator of the use site)"""
    S = {"type": "string"}
    strict = {"Strict": {"type": "string", "enum": ["a", "b"]}}
    return [
        ("snake-case component vs inline item type name",
         {"order": {"type": "object", "properties": {"items": {"type": "array", "items": {"type": "object", "required": ["quantity"], "properties": {"quantity": {"type": "integer"}}}}}}},
         {"order_item": {"type": "object", "required": ["sku"], "properties": {"sku": S}}}, ("field", "Order", "items")),
        ("kebab-case component vs inline member type name",
         {"Cart": {"type": "object", "properties": {"line": {"type": "object", "required": ["qty"], "properties": {"qty": {"type": "integer"}}}}}},
         {"cart-line": {"type": "object", "required": ["sku"], "properties": {"sku": S}}}, ("field", "Cart", "line")),
        ("titled nullable primitive vs component named like the title",
         {"Contact": {"type": "object", "properties": {"address": {"title": "Address", "type": ["string", "null"]}}}},
         {"Address": {"type": "object", "properties": {"street": S}}}, ("field", "Contact", "address")),
        ("titled string vs component named like the title",
         {"Contact": {"type": "object", "properties": {"address": {"title": "Address", "type": "string"}}}},
         {"Address": {"type": "object", "properties": {"street": S}}}, ("field", "Contact", "address")),
        ("relaxed enum (anyOf string | enum) vs strict enum with the same values",
         {"HolderR": {"type": "object", "properties": {"level": {"anyOf": [S, {"type": "string", "enum": ["a", "b"]}]}}}}, strict, ("field", "HolderR", "level")),
        ("oneOf enum | integer vs strict enum with the same values",
         {"HolderU": {"type": "object", "properties": {"v": {"oneOf": [{"type": "string", "enum": ["a", "b"]}, {"type": "integer"}]}}}}, strict, ("field", "HolderU", "v")),
        ("inline discriminated union (with mapping) vs unrelated named union over the same references",
         {"Sa": {"type": "object", "required": ["a"], "properties": {"a": S, "kind": S}}, "Sb": {"type": "object", "required": ["b"], "properties": {"b": {"type": "integer"}, "kind": S}},
          "HolderD": {"type": "object", "properties": {"tagged": {"oneOf": [ref("Sa"), ref("Sb")], "discriminator": {"propertyName": "kind", "mapping": {"a": "#/components/schemas/Sa", "b": "#/components/schemas/Sb"}}}}}},
         {"AnyShape": {"oneOf": [ref("Sa"), ref("Sb")]}}, ("field", "HolderD", "tagged")),
        ("closed inline enum vs relaxed inline enum over the same values in a component converted earlier",
         {"TicketP": {"type": "object", "properties": {"priority": {"type": "string", "enum": ["low", "high"]}}}},
         {"AHint": {"type": "object", "properties": {"hint": {"anyOf": [S, {"type": "string", "enum": ["low", "high"]}]}}}}, ("field", "TicketP", "priority")),
        ("closed inline enum vs relaxed inline enum over the same values in a component converted later",
         {"TicketP": {"type": "object", "properties": {"priority": {"type": "string", "enum": ["low", "high"]}}}},
         {"ZHint": {"type": "object", "properties": {"hint": {"anyOf": [S, {"type": "string", "enum": ["low", "high"]}]}}}}, ("field", "TicketP", "priority")),
        ("closed inline enum next to a relaxed inline enum over the same values in the same object",
         {"TicketQ": {"type": "object", "properties": {"priority": {"type": "string", "enum": ["low", "high"]}}}},
         {"TicketQ": {"type": "object", "properties": {"hint": {"anyOf": [S, {"type": "string", "enum": ["low", "high"]}]}, "priority": {"type": "string", "enum": ["low", "high"]}}}}, ("field", "TicketQ", "priority")),
        ("relaxed inline enum (anyOf enum | string) vs closed inline enum over the same values in a component converted earlier",
         {"BetaR": {"type": "object", "properties": {"mode": {"anyOf": [{"type": "string", "enum": ["on", "off"]}, S]}}}},
         {"AlphaR": {"type": "object", "properties": {"sw": {"type": "string", "enum": ["on", "off"]}}}}, ("field", "BetaR", "mode")),
        ("relaxed inline enum (anyOf string | enum) vs closed inline enum over the same values in a component converted earlier",
         {"BetaS": {"type": "object", "properties": {"mode": {"anyOf": [S, {"type": "string", "enum": ["on", "off"]}]}}}},
         {"AlphaS": {"type": "object", "properties": {"sw": {"type": "string", "enum": ["on", "off"]}}}}, ("field", "BetaS", "mode")),
        ("relaxed inline enum vs closed inline enum over the same values in the same object, closed one first",
         {"GammaR": {"type": "object", "properties": {"zmode": {"anyOf": [{"type": "string", "enum": ["on", "off"]}, S]}}}},
         {"GammaR": {"type": "object", "properties": {"asw": {"type": "string", "enum": ["on", "off"]}, "zmode": {"anyOf": [{"type": "string", "enum": ["on", "off"]}, S]}}}}, ("field", "GammaR", "zmode")),
        ("inline member object next to an array member whose item type derives the same name (category / categories)",
         {"Product": {"type": "object", "properties": {"category": {"type": "object", "properties": {"id": {"type": "integer"}, "path": S}}}}},
         {"Product": {"type": "object", "properties": {"categories": {"type": "array", "items": {"type": "object", "properties": {"slug": S}}},
                                                       "category": {"type": "object", "properties": {"id": {"type": "integer"}, "path": S}}}}}, ("field", "Product", "category")),
        ("array member next to an inline member object whose name its item type derives (categories / category)",
         {"Product": {"type": "object", "properties": {"categories": {"type": "array", "items": {"type": "object", "properties": {"slug": S}}}}}},
         {"Product": {"type": "object", "properties": {"categories": {"type": "array", "items": {"type": "object", "properties": {"slug": S}}},
                                                       "category": {"type": "object", "properties": {"id": {"type": "integer"}, "path": S}}}}}, ("field", "Product", "categories")),
        ("union member whose variant type derives the name of a sibling inline member",
         {"Basket": {"type": "object", "properties": {"item": {"type": "object", "properties": {"sku": S}}}}},
         {"Basket": {"type": "object", "properties": {"item": {"type": "object", "properties": {"sku": S}}, "items": {"type": "array", "items": {"type": "object", "properties": {"qty": {"type": "integer"}}}}}}}, ("field", "Basket", "item")),
        ("inline allOf over two references vs unrelated named oneOf over the same references",
         {"EmailC": {"type": "object", "properties": {"email": S}}, "PhoneC": {"type": "object", "properties": {"phone": S}},
          "Profile": {"type": "object", "properties": {"reachable_by": {"allOf": [ref("EmailC"), ref("PhoneC")]}}}},
         {"Contact": {"oneOf": [ref("EmailC"), ref("PhoneC")]}}, ("field", "Profile", "reachable_by")),
        ("inline enums named by the same member name in four components, two value sets",
         {"Ticket": {"type": "object", "properties": {"status": {"type": "string", "enum": ["todo", "done"]}}}, "Task": {"type": "object", "properties": {"status": {"type": "string", "enum": ["todo", "done"]}}}},
         {"Order": {"type": "object", "properties": {"status": {"type": "string", "enum": ["open", "paid"]}}}, "Invoice": {"type": "object", "properties": {"status": {"type": "string", "enum": ["open", "paid"]}}}},
         ("field", "Ticket", "status")),
        ("inline enums named by the same member name in four components, the other value set",
         {"Order": {"type": "object", "properties": {"status": {"type": "string", "enum": ["open", "paid"]}}}, "Invoice": {"type": "object", "properties": {"status": {"type": "string", "enum": ["open", "paid"]}}}},
         {"Ticket": {"type": "object", "properties": {"status": {"type": "string", "enum": ["todo", "done"]}}}, "Task": {"type": "object", "properties": {"status": {"type": "string", "enum": ["todo", "done"]}}}},
         ("field", "Order", "status")),
        # (a fifth element: what the type at the use site must still contain / must not be, whatever else is in the spec)
        ("union member that extends a referenced schema (allOf [$ref Base, {extra}]) next to a plain $ref Base",
         {"Base": {"type": "object", "properties": {"id": {"type": "integer"}}},
          "HolderX": {"type": "object", "properties": {"item": {"oneOf": [{"allOf": [ref("Base"), {"type": "object", "required": ["extra"], "properties": {"extra": S}}]}, {"type": "integer"}]}}}},
         {"PlainUse": {"type": "object", "properties": {"b": ref("Base")}}}, ("field", "HolderX", "item"), lambda t: "extra" in t),
        ("map values / nested array items that are anyOf [$ref Widget, primitive] next to a plain $ref Widget",
         {"Widget": {"type": "object", "required": ["w"], "properties": {"w": S}},
          "HolderW": {"type": "object", "properties": {"extras": {"type": "object", "additionalProperties": {"anyOf": [ref("Widget"), {"type": "integer"}]}},
                                                       "grid": {"type": "array", "items": {"type": "array", "items": {"anyOf": [ref("Widget"), {"type": "boolean"}]}}}}}},
         {"PlainW": {"type": "object", "properties": {"one": ref("Widget")}}}, ("type", "HolderW", None),
         lambda t: not re.search(r"extras: Option<std::collections::HashMap<String, T\d+>>", t) and not re.search(r"grid: Option<Vec<Vec<T\d+>>>", t)),
        ("inline enum vs named enum with a superset of values",
         {"HolderE": {"type": "object", "properties": {"v": {"type": "string", "enum": ["a", "b"]}}}}, {"Wide": {"type": "string", "enum": ["a", "b", "c"]}}, ("field", "HolderE", "v")),
    ]


def scenario_part(d, viol):
    scs = scenarios()
    wrap = lambda sch: {"openapi": "3.1.0", "info": {"title": "t", "version": "1"}, "paths": {}, "components": {"schemas": sch}}

    def gen(spec, path):
        os.makedirs(path, exist_ok=True)
        sp = os.path.join(path, "spec.json")
        json.dump(spec, open(sp, "w"))
        out = os.path.join(path, "out.rs")
        rc, txt = vlib.oas(["generate", "types", "-i", sp, "-o", out, "-q", "--all-schemas", "--no-helpers"], timeout=120)
        return rc, txt[-300:], (open(out).read() if rc == 0 and os.path.exists(out) else "")
    n = 0
    for k, sc in enumerate(scs):
        name, alone, added, loc = sc[:4]
        expect = sc[4] if len(sc) > 4 else None
        ra = gen(wrap(alone), os.path.join(d, f"sc{k}", "alone"))
        rc_ = gen(wrap(dict(alone, **added)), os.path.join(d, f"sc{k}", "comb"))
        if ra[0] != 0 or rc_[0] != 0:
            viol.append(({"scenario": name}, wrap(dict(alone, **added)), f"scenario '{name}': generation failed (alone rc={ra[0]}, combined rc={rc_[0]} {rc_[1][-120:]})", None))
            continue
        n += 1
        ta, tc = site_text(ra[2], loc), site_text(rc_[2], loc)
        if ta is None or tc is None:
            viol.append(({"scenario": name}, wrap(dict(alone, **added)), f"scenario '{name}': use site {loc} not found (alone: {ta is not None}, combined: {tc is not None})", None))
        elif expect is not None and not (expect(ta) and expect(tc)):
            viol.append(({"scenario": name}, wrap(dict(alone, **added)), f"scenario '{name}': the type at {loc} has collapsed onto the referenced schema's type: {(tc if not expect(tc) else ta)[:300]!r}", None))
        elif ta != tc and not (ta.count("impl core::fmt::Display") != tc.count("impl core::fmt::Display") and serde_view(ta) == serde_view(tc)):
            viol.append(({"scenario": name}, wrap(dict(alone, **added)), f"scenario '{name}': adding the component {sorted(added)} changes the type at {loc}: {first_diff(tc, ta)}", classify_scenario(name)))
    return n


def classify_scenario(name):
    return {"relaxed enum (anyOf string | enum) vs strict enum with the same values": "relaxed-enum-resolves-to-strict",
            "oneOf enum | integer vs strict enum with the same values": "union-with-enum-member-resolves-to-enum"}.get(name)


def main(tier, seed, replay=None):
    res = Result("C13", tier, seed)
    vlib.build_repo()
    coq_ok, out = vlib.standard_coq_obligations(res, TARGETS, THEOREMS, expect_closed=9)
    rng = random.Random(seed * 131 + 13)
    fam = families()
    cases = []
    for fname, members in fam.items():
        pairs = [(i, j) for i in range(len(members)) for j in range(len(members)) if i != j]
        for (i, j) in pairs:
            for sa, sb in itertools.product(SITES, SITES):
                if sa in ("query",) and fname in ("object", "union", "kwprops"):
                    continue
                if sb in ("query",) and fname in ("object", "union", "kwprops"):
                    continue
                if fname == "prim" and not ({sa, sb} <= {"respbody", "reqbody", "prop", "item"}):
                    continue
                cases.append({"family": fname, "i": i, "j": j, "sa": sa, "sb": sb})
    n_all = len(cases)
    if tier == "quick":
        # every (family, i, j) with a rotating choice of sites, plus every site pair for the first pairs
        keep = {}
        for c in cases:
            keep.setdefault((c["family"], c["i"], c["j"]), []).append(c)
        cases = [rng.choice(v) for v in keep.values()] + [c for c in cases if (c["i"], c["j"]) in ((0, 2), (2, 0), (0, 1))]
    if replay:
        r = json.load(open(replay))
        if "case" in r:
            cases = [r["case"]]
    d = vlib.scratch("C13")

    def gen(spec, path):
        os.makedirs(path, exist_ok=True)
        sp = os.path.join(path, "spec.json")
        json.dump(spec, open(sp, "w"))
        out = os.path.join(path, "out.rs")
        rc, txt = vlib.oas(["generate", "types", "-i", sp, "-o", out, "-q", "--all-schemas", "--no-helpers"], timeout=120)
        return rc, txt[-300:], (open(out).read() if rc == 0 and os.path.exists(out) else "")

    def one(k):
        c = cases[k]
        S1, S2 = fam[c["family"]][c["i"]], fam[c["family"]][c["j"]]
        comb, locs = make_spec([(c["sa"], "A", S1), (c["sb"], "B", S2)])
        isoA, locA = make_spec([(c["sa"], "A", S1)])
        isoB, locB = make_spec([(c["sb"], "B", S2)])
        # the second combination order (B's schema first in the document) is the same document: BTreeMap order rules
        r = {}
        for nm, sp in (("comb", comb), ("isoA", isoA), ("isoB", isoB)):
            r[nm] = gen(sp, os.path.join(d, f"c{k}", nm))
        return c, comb, locs, r
    outs = vlib.pmap(one, range(len(cases)))
    viol, n_cmp, n_same_type, gen_fail, n_neutral = [], 0, 0, 0, 0
    for (c, comb, locs, r) in outs:
        if any(r[x][0] != 0 for x in r):
            gen_fail += 1
            if r["comb"][0] != 0 and r["isoA"][0] == 0 and r["isoB"][0] == 0:
                viol.append((c, comb, f"{desc(c)}: the combined spec fails to generate although each half generates: {r['comb'][1].strip()[-200:]}", None))
            continue
        for side, iso, loc in (("A", "isoA", locs[0]), ("B", "isoB", locs[1])):
            tc = site_text(r["comb"][2], loc)
            ti = site_text(r[iso][2], loc)
            n_cmp += 1
            if tc is None or ti is None:
                viol.append((c, comb, f"{desc(c)}: use site {loc} not found in the emitted code (combined: {tc is not None}, isolated: {ti is not None})", None))
                continue
            if tc != ti and tc.count("impl core::fmt::Display") != ti.count("impl core::fmt::Display") and serde_view(tc) == serde_view(ti):
                n_neutral += 1          # one side only lacks the string conversions; every site here is encoded through serde
                continue
            if tc != ti:
                wn_c, wn_i = wire_names(tc), wire_names(ti)
                if wn_c != wn_i:
                    only_i = [x for x in wn_i if x not in wn_c]
                    only_c = [x for x in wn_c if x not in wn_i]
                    w = f"value(s) accepted alone but not when the other schema is present: {only_i[:3]}; accepted only in the combined spec: {only_c[:3]}"
                else:
                    w = first_diff(tc, ti)
                viol.append((c, comb, f"{desc(c)}: the type at use site {side} {loc} changes when the other schema is added: {w}", classify(c, tc, ti)))
        ta = site_text(r["comb"][2], locs[0])
        tb = site_text(r["comb"][2], locs[1])
        if ta is not None and ta == tb:
            n_same_type += 1
    n_sc = scenario_part(d, viol)
    res.counts.update({"scenarios": n_sc, "evaluations": len(cases) * 3, "distinct_nontrivial": len(cases) - gen_fail, "comparisons": n_cmp, "pairs_in_full_matrix": n_all,
                       "traces_validated_against_impl": n_cmp, "exhaustive": tier != "quick", "generator_failures": gen_fail,
                       "site_pairs_with_identical_normalised_types": n_same_type, "sites_differing_only_by_display_fromstr": n_neutral,
                       "rule": "near-equal schema pairs (9 families: string / integer / mixed enums, objects, keyword-named members, primitives, reference unions, value unions with and without an open variant, arrays; facets: value set, value order, value JSON type, member type, required set, key order, description only, extra inline variant, discriminator, oneOf vs anyOf) x ordered pairs of 7 use sites (inline property, named schema, array item, nested inline object, query parameter, response body, request body); for each case the combined spec and the two single-schema specs are generated; the normalised closure of the type named at each use site (docs and derives erased, emitted type names replaced by placeholders in traversal order) must be identical in the combined and the single-schema output"})
    for c in cases[:4]:
        res.sample(c)
    res.cov["trusted_base"] = vlib.COMMON_TRUSTED + [
        "coq/Model/Canon.v: hand model of CanonicalSchema::from_schema (normalize_schema_semantics + RFC 8785 member ordering)", "coq/Model/Dedup.v: hand model of the response-enum signature (compute_signature)", "coq/Model/Sharing.v: hand model of the enum key (EnumValueEntry::cache_key / entries_to_cache_key) and the union key (union_type / build_union_fingerprints / UnionRegistry)",
        "lib/c13.py split_items / closure_text: item splitting of prettyplease output and name-placeholder normalisation"]
    res.assumptions = ["PARTIAL: soundness of the two identity keys is proved on the model; canonical-schema identity is proved to identify only reorderings; response-enum signatures are proved to identify only equal variant multisets (the signature's ingredients — status, variant name, category, schema type text — are read off the code); that merge by type name does not merge wire-different types is covered by the differential matrix only",
                       "the oracle compares emitted definitions, not run-time behaviour: a textual difference that is wire-neutral would be reported as a difference (none occurs on the unchanged tree)"]
    kf = {k["key"]: k["text"] for k in vlib.known_findings("C13")}
    seen_known, real = set(), []
    for (c, comb, dsc, cls) in viol:
        if cls and cls in kf:
            seen_known.add(cls)
        else:
            real.append((c, comb, dsc + (f" [unlisted class {cls}]" if cls else "")))
    for k in sorted(seen_known):
        res.known(k, kf[k])
    for (c, comb, dsc) in real[:3]:
        res.violation(dsc, {"case": c, "spec": comb})
    if len(real) > 3:
        log(f"  ... {len(real)} differing use sites in total, e.g. " + "; ".join(desc(c) for c, _, _ in real[:30]))
    broken = [o for o in res.obligations if not o[1]]
    if broken and not real:
        res.violation("proof obligation no longer checks: " + "; ".join(o[0] for o in broken),
                      {"broken": [[o[0], o[2]] for o in broken]}, no_input=True)
    return res.finish()


def desc(c):
    if "scenario" in c:
        return "scenario " + c["scenario"]
    return f"{c['family']}[{c['i']}]@{c['sa']} + {c['family']}[{c['j']}]@{c['sb']}"


def first_diff(a, b):
    la, lb = a.split("\n"), b.split("\n")
    for x, y in zip(la, lb):
        if x != y:
            return f"combined `{x.strip()[:120]}` vs alone `{y.strip()[:120]}`"
    return f"combined has {len(la)} lines, alone {len(lb)}"


def classify(c, tc, ti):
    """narrow known-finding classes"""
    if c["family"] == "union":
        fam = families()["union"]
        a, b = fam[c["i"]], fam[c["j"]]

        def shape(u):
            vs = u.get("oneOf") or u.get("anyOf")
            if not all("$ref" in v for v in vs):
                return None
            return ([v["$ref"] for v in vs], (u.get("discriminator") or {}).get("propertyName"))
        sa, sb = shape(a), shape(b)
        if sa and sb and sa[1] == sb[1] and sa[0] != sb[0] and sorted(sa[0]) == sorted(sb[0]):
            # same references in a different order: only the order of the untagged variants may differ
            la, lb = tc.split("\n"), ti.split("\n")
            if sorted(la) == sorted(lb) or sorted(l for l in la if "default" not in l) == sorted(l for l in lb if "default" not in l):
                return "union-variant-order-ignored"
    return None
