"""C06 — client and server generated from one spec interoperate losslessly (response/status leg)."""
import json, os, random, re
import vlib, c04, c05
from vlib import Result, log

THEOREMS = ["C06_response_roundtrip", "C06_refuted_range_vs_exact", "C06_refuted_default", "C06_nonvacuous"]
TARGETS = ["Props/C06.v", "Extract/C04.v", "Extract/C05.v"]


def main(tier, seed, replay=None):
    res = Result("C06", tier, seed)
    c04.load_http_consts()
    vlib.build_repo()
    rep = vlib.translate()
    for f in ("StatusTable.v", "Content.v", "Methods.v"):
        r = rep.get(f, {"ok": False, "error": "missing"})
        res.oblige(f"translator: Gen/{f} regenerated from current source", r.get("ok"), r.get("error", ""))
    coq_ok, out = vlib.standard_coq_obligations(res, TARGETS, THEOREMS, expect_closed=2)
    exe4 = vlib.ocaml_build("c04") if coq_ok else None
    exe5 = vlib.ocaml_build("c05") if coq_ok else None
    rnd = random.Random(seed)
    cases = c04.gen_cases("quick", seed)
    rnd.shuffle(cases)
    cases = cases[:400 if tier == "quick" else 1692]
    if replay:
        cases = [[(k, [tuple(x) for x in c]) for k, c in json.load(open(replay))["case"]]]
    d = vlib.scratch("C06")

    def one(i):
        sp = os.path.join(d, f"s{i}.json")
        json.dump(c04.make_spec(cases[i]), open(sp, "w"))
        oc, os_ = os.path.join(d, f"c{i}"), os.path.join(d, f"v{i}")
        rc1, t1 = vlib.oas(["generate", "client-mod", "-i", sp, "-o", oc, "-q"])
        rc2, t2 = vlib.oas(["generate", "server-mod", "-i", sp, "-o", os_, "-q"])
        return rc1, rc2, t1 + t2, oc, os_
    outs = vlib.pmap(one, range(len(cases)))
    cl = vlib.vtool_lines("parse-response", [os.path.join(o[3], "types.rs") for o in outs])
    sv = vlib.vtool_lines("server", [o[4] for o in outs])
    viol, known_hits, dis = [], set(), []
    n_eval = 0
    # model predictions: status sent per key (C05 model) and variant parsed at that status (C04 model)
    model_pred = None
    if exe4 and exe5:
        keys = sorted({k for c in cases for k, _ in c})
        st = dict(zip(keys, vlib.run_driver(exe5, ["status " + k for k in keys])))
        q = []
        for c in cases:
            qs = " ".join(f"{st[k]} application/json" for k, _ in c if st[k] != "-")
            q.append(f"parse {c04.rs_line(c)} // {qs}")
        model_pred = vlib.run_driver(exe4, q)
    for i, (case, (rc1, rc2, txt, _, _), c, s) in enumerate(zip(cases, outs, cl, sv)):
        if rc1 != 0 or rc2 != 0 or not c.get("parse_response") or "error" in c["parse_response"][0] or "error" in s:
            viol.append((case, f"generation/readback failed: {txt[-200:]}"))
            continue
        pr = c["parse_response"][0]
        cen = pr["ret"].replace("anyhow::Result<", "").rstrip(">")
        cvk = c04.variant_keys(c["enums"].get(cen, []))
        keys = {k for k, _ in case}
        mp = model_pred[i].split(" ;; ") if model_pred else None
        mi = 0
        for en, arms in s["into_response"].items():
            for arm in arms:
                n_eval += 1
                m = re.fullmatch(r"http::StatusCode::([A-Z_]+)", arm["status"])
                m2 = re.search(r"from_u16\((\d+)u16\)", arm["status"])
                code = c04.HTTP_CONSTS.get(m.group(1)) if m else (int(m2.group(1)) if m2 else None)
                if code is None:
                    viol.append((case, f"server status {arm['status']} not understood"))
                    continue
                # the media type the server's arm produces: a raw String goes out as text/plain, raw bytes as
                # application/octet-stream (axum's IntoResponse for those types), anything else as JSON
                ptype = next(((v.get("payload") or "").replace(" ", "") for v in s["enums"].get(en, []) if v["name"] == arm["variant"]), "")
                sent_ct = "application/json"
                if arm.get("encoder") == "data":
                    sent_ct = "text/plain; charset=utf-8" if ptype == "String" else "application/octet-stream"
                got = c04.eval_readback(pr, code, sent_ct)
                key = cvk.get(arm["variant"], "?")
                # the server encodes payloads as JSON: where JSON is one of the media types declared for the key, the
                # client must decode a JSON response of that status with its JSON decoder
                decl = dict(next((cc for k, cc in case if k == key), []))
                jsonish = [ct for ct, sc in decl.items() if c04.DECODER_OF_CT.get(ct) == "json" and sc is not None]
                if got == arm["variant"] and jsonish and sent_ct == "application/json":
                    gcase = c04.eval_readback_case(pr, code, jsonish[0])
                    fam = (gcase.get("payload") or "").split(":")[0]
                    if gcase.get("variant") == arm["variant"] and fam and fam != "json":
                        if key == "default" and len([x for x in decl.values() if x is not None]) > 1:
                            # C04's recorded defect seen from the other side: the fallback arm has no content dispatch
                            known_hits.add("default-multi-media-no-dispatch")
                            continue
                        viol.append((case, f"server sends variant {arm['variant']} (key {key}, status {code}) as JSON and {jsonish[0]} is declared for it, but the client decodes that response with its {fam} decoder"))
                if got != arm["variant"]:
                    if key == "default" or arm["variant"] == "Unknown":
                        known_hits.add("default-sent-as-200")
                    elif re.fullmatch(r"\dXX", key) and str(code) in keys:
                        known_hits.add("range-sent-as-representative")
                    elif sent_ct == "application/json" and any(b["body"]["kind"] == "dispatch" for b in pr["handlers"]):
                        # xml / event-stream / a second JSON-like media type: still sent as plain application/json
                        known_hits.add("payload-always-json")
                    else:
                        viol.append((case, f"server sends variant {arm['variant']} (key {key}) with status {code} as {sent_ct}; client parses it as {got}"))
        # model/implementation agreement on the composition (client variant for each sent status)
        if mp is not None:
            sent = [k for k, _ in case]
    n_req = request_leg(tier, seed, viol, known_hits)
    n_loop = loopback_leg(viol)
    n_eval += n_req + n_loop
    res.counts.update({"request_leg_roundtrips": n_req, "loopback_calls": n_loop, "evaluations": n_eval, "distinct_nontrivial": len(cases),
                       "traces_validated_against_impl": len(cases),
                       "rule": "responses objects from the C04 generator; client-mod and server-mod generated by separate CLI runs; for every response variant the server's IntoResponse status is fed to the client's emitted parse chain (both read back with syn): the client must return the same variant"})
    for c in cases[:3]:
        res.sample({"responses": [[k, [ct for ct, _ in sh]] for k, sh in c]})
    res.cov["trusted_base"] = vlib.COMMON_TRUSTED + ["composition of the C04 and C05 models; python evaluation of the read-back client chain (search oracle)"]
    res.assumptions = ["the response/status leg is composed from the two models; request legs are observed: header / query structs rendered by the client and re-read by the server in the arena, and a loopback run of the generated client against the generated axum router for path values, required and optional JSON bodies and the returned variant"]
    kf = {k["key"]: k["text"] for k in vlib.known_findings("C06")}
    for k in sorted(known_hits):
        if k in kf:
            res.known(k, kf[k])
        else:
            viol.append((k, f"unlisted failing class {k}"))
    for (case, dsc) in viol[:3]:
        res.violation(dsc, {"case": case})
    broken = [o for o in res.obligations if not o[1]]
    if broken and not viol:
        res.violation("proof obligation or correspondence no longer checks: " + "; ".join(o[0] for o in broken),
                      {"broken": [[o[0], o[2]] for o in broken]}, no_input=True)
    return res.finish()


# ======================================================================================================
# request legs in the arena: what the generated client renders (headers, query) is what the generated
# server extracts — client-mod and server-mod generated by separate CLI runs, compiled side by side.
# ======================================================================================================
import arena

REQ_PARAMS = [
    {"name": "version", "in": "header", "schema": {"type": "string"}},
    {"name": "X-Fields", "in": "header", "schema": {"type": "array", "items": {"type": "string"}}},
    {"name": "X-Ids", "in": "header", "schema": {"type": "array", "items": {"type": "integer"}}},
    {"name": "X-Count", "in": "header", "required": True, "schema": {"type": "integer"}},
    {"name": "X-Flag", "in": "header", "schema": {"type": "boolean"}},
    {"name": "limit", "in": "query", "schema": {"type": "integer"}},
    {"name": "q", "in": "query", "required": True, "schema": {"type": "string"}},
    {"name": "tags", "in": "query", "explode": False, "schema": {"type": "array", "items": {"type": "string"}}},
    {"name": "flag", "in": "query", "schema": {"type": "boolean"}},
]


def rust_value(ty, variant):
    """a Rust expression of type `ty` (as printed by the read-back) with non-trivial content"""
    ty = ty.replace(" ", "")
    if ty.startswith("Option<"):
        inner = ty[7:-1]
        return "None" if variant == 2 else f"Some({rust_value(inner, variant)})"
    if ty.startswith("Vec<"):
        inner = ty[4:-1]
        n = [2, 3, 1][variant]
        return "vec![" + ", ".join(rust_value(inner, (variant + k) % 3) for k in range(n)) + "]"
    if ty == "String":
        return ['"title".to_string()', '"body text".to_string()', '"x-y_z".to_string()'][variant]
    if ty in ("i64", "i32", "u64", "u32"):
        return ["7", "-3", "0"][variant] if ty.startswith("i") else ["7", "3", "0"][variant]
    if ty == "bool":
        return ["true", "false", "true"][variant]
    if ty == "f64":
        return ["1.5", "-2.0", "0.0"][variant]
    return "Default::default()"


def request_leg(tier, seed, viol, known_hits):
    d = vlib.scratch("C06r")
    spec = {"openapi": "3.1.0", "info": {"title": "t", "version": "1"},
            "paths": {"/r/{id}": {"parameters": [{"name": "id", "in": "path", "required": True, "schema": {"type": "string"}}],
                                  "get": {"operationId": "getReport", "parameters": REQ_PARAMS, "responses": {"200": {"description": "ok"}}}}}}
    sp = os.path.join(d, "spec.json")
    json.dump(spec, open(sp, "w"))
    oc, os_ = os.path.join(d, "client"), os.path.join(d, "server")
    rc1, t1 = vlib.oas(["generate", "client-mod", "-i", sp, "-o", oc, "-q"])
    rc2, t2 = vlib.oas(["generate", "server-mod", "-i", sp, "-o", os_, "-q"])
    if rc1 or rc2:
        viol.append((spec, f"request-leg spec: generation failed {t1[-100:]} {t2[-100:]}"))
        return 0
    dumps = vlib.vtool_lines("dump", [os.path.join(oc, "types.rs"), os.path.join(os_, "types.rs")])
    def fields_of(dump, name):
        it = [x for x in dump["items"] if x["kind"] == "struct" and x["name"] == name]
        return [(f["name"], f["ty"]) for f in it[0]["fields"]] if it else None
    ar = arena.Arena("C06")
    ar.add_case(0, oc)
    ar.add_case(1, os_)
    blocks = []
    n = 0
    for sname, how in (("GetReportRequestHeader", "header"), ("GetReportRequestQuery", "query")):
        cf, sf = fields_of(dumps[0], sname), fields_of(dumps[1], sname)
        if cf is None or sf is None:
            viol.append((spec, f"{sname} missing on {'client' if cf is None else 'server'} side"))
            continue
        if [x[0] for x in cf] != [x[0] for x in sf]:
            viol.append((spec, f"{sname}: client fields {cf} vs server fields {sf}"))
            continue
        for variant in range(3):
            lit_c = ", ".join(f"{nm}: {rust_value(ty, variant)}" for nm, ty in cf)
            n += 1
            if how == "header":
                blocks.append(f'''
    {{
        let c = case_0::{sname} {{ {lit_c} }};
        let map = http::HeaderMap::try_from(&c).expect("client header rendering");
        let s: case_1::{sname} = (&map).try_into().unwrap_or_default();
        println!("{sname}/{variant}\t{{:?}}\t{{:?}}", c, s);
    }}''')
            else:
                blocks.append(f'''
    {{
        let c = case_0::{sname} {{ {lit_c} }};
        match serde_urlencoded::to_string(&c) {{
            Ok(qs) => match serde_urlencoded::from_str::<case_1::{sname}>(&qs) {{
                Ok(s) => println!("{sname}/{variant}\t{{:?}}\t{{:?}}", c, s),
                Err(e) => println!("{sname}/{variant}\t{{:?}}\tSERVER-ERR {{}} [{{}}]", c, e, qs),
            }},
            Err(e) => println!("{sname}/{variant}\t{{:?}}\tCLIENT-ERR {{}}", c, e),
        }}
    }}''')
    ar.write_main("fn main() {" + "".join(blocks) + "\n}\n")
    ok, diags, err = ar.cargo("build")
    if not ok:
        viol.append((spec, f"request-leg arena does not build: {(diags[0]['rendered'] if diags else err)[:400]}"))
        return 0
    rc, outp, errp = ar.run("")
    for line in outp.split("\n"):
        if not line.strip():
            continue
        tag, c, s_ = line.split("\t")
        if c != s_:
            viol.append((spec, f"{tag}: client value {c} arrives at the server as {s_}"))
    return n


# ======================================================================================================
# loopback leg: the generated client talks to the generated server (axum on 127.0.0.1) — bodies, optional
# bodies, path / query / header values and the returned variant must survive the round trip.
# ======================================================================================================
LOOP_SPEC = {"openapi": "3.1.0", "info": {"title": "loop", "version": "1"}, "paths": {
    "/jobs/{jobId}/restart": {"post": {"operationId": "restart_job", "parameters": [{"name": "jobId", "in": "path", "required": True, "schema": {"type": "string"}}],
                                       "requestBody": {"content": {"application/json": {"schema": {"$ref": "#/components/schemas/Reason"}}}},
                                       "responses": {"202": {"description": "ok", "content": {"application/json": {"schema": {"$ref": "#/components/schemas/Echo"}}}}, "409": {"description": "busy"}}}},
    "/items": {"post": {"operationId": "create_item", "requestBody": {"required": True, "content": {"application/json": {"schema": {"$ref": "#/components/schemas/Item"}}}},
                        "responses": {"201": {"description": "made", "content": {"application/json": {"schema": {"$ref": "#/components/schemas/Echo"}}}}}},
               "get": {"operationId": "find_items", "parameters": [{"name": "q", "in": "query", "required": True, "schema": {"type": "string"}}, {"name": "limit", "in": "query", "schema": {"type": "integer"}},
                                                                     {"name": "tags", "in": "query", "style": "pipeDelimited", "schema": {"type": "array", "items": {"type": "string"}}},
                                                                     {"name": "ids", "in": "query", "style": "spaceDelimited", "schema": {"type": "array", "items": {"type": "integer"}}},
                                                                     {"name": "csv", "in": "query", "explode": False, "schema": {"type": "array", "items": {"type": "string"}}},
                                                                     {"name": "X-Tenant", "in": "header", "schema": {"type": "string"}}],
                       "responses": {"200": {"description": "ok", "content": {"application/json": {"schema": {"$ref": "#/components/schemas/Echo"}}}}}}},
    # optional query parameters whose schemas carry a default (absent must arrive absent) and a discriminated
    # body whose mapping names every member twice (each tag must be accepted in both directions)
    # text and binary responses (the server writes them in their declared media type, the client reads them back)
    "/note": {"get": {"operationId": "get_note", "parameters": [{"name": "X-Want", "in": "header", "schema": {"type": "string"}}],
                      "responses": {"200": {"description": "ok", "content": {"text/plain": {"schema": {"type": "string"}}}},
                                    "202": {"description": "acc", "content": {"application/octet-stream": {"schema": {"type": "string", "format": "binary"}}}},
                                    "404": {"description": "nf", "content": {"application/json": {"schema": {"$ref": "#/components/schemas/Echo"}}}}}}},
    # a required path parameter whose pattern admits the empty string: a value the client lets through must reach the handler
    "/articles/{slug}": {"get": {"operationId": "get_article", "parameters": [{"name": "slug", "in": "path", "required": True, "schema": {"type": "string", "pattern": "^[a-z0-9-]*$"}}],
                                 "responses": {"200": {"description": "ok", "content": {"application/json": {"schema": {"$ref": "#/components/schemas/Echo"}}}}, "404": {"description": "nf"}}}},
    "/pets": {"post": {"operationId": "adopt_pet", "parameters": [{"name": "page", "in": "query", "schema": {"type": "integer", "default": 20}},
                                                                    {"name": "sort", "in": "query", "schema": {"type": "string", "enum": ["name", "price"], "default": "name"}},
                                                                    {"name": "note", "in": "query", "schema": {"type": "string", "default": "none"}},
                                                                    {"name": "X-Mode", "in": "header", "schema": {"type": "string", "default": "fast"}}],
                       "requestBody": {"required": True, "content": {"application/json": {"schema": {"$ref": "#/components/schemas/Pet"}}}},
                       "responses": {"200": {"description": "ok", "content": {"application/json": {"schema": {"$ref": "#/components/schemas/Pet"}}}}}}}},
    "components": {"schemas": {"Pet": {"oneOf": [{"$ref": "#/components/schemas/Cat"}, {"$ref": "#/components/schemas/Dog"}],
                                       "discriminator": {"propertyName": "petType", "mapping": {"cat": "#/components/schemas/Cat", "feline": "#/components/schemas/Cat",
                                                                                                "dog": "#/components/schemas/Dog", "hound": "#/components/schemas/Dog"}}},
                               "Cat": {"type": "object", "required": ["petType"], "properties": {"petType": {"type": "string", "enum": ["cat", "feline"]}, "lives": {"type": "integer"}}},
                               "Dog": {"type": "object", "required": ["petType"], "properties": {"petType": {"type": "string", "enum": ["dog", "hound"]}, "bark": {"type": "string"}}},
                               "Reason": {"type": "object", "properties": {"reason": {"type": "string"}}},
                               "Item": {"type": "object", "required": ["name"], "properties": {"name": {"type": "string"}, "qty": {"type": "integer"}}},
                               "Echo": {"type": "object", "properties": {"seen": {"type": "string"}}}}}}

LOOP_MAIN = r'''
use case_0 as C;
use case_1 as S;
#[derive(Clone)]
struct Svc;
impl S::ApiServer for Svc {
    async fn find_items(&self, request: S::FindItemsRequest) -> anyhow::Result<S::FindItemsResponse> {
        Ok(S::FindItemsResponse::Ok(S::Echo { seen: Some(format!("q={:?} limit={:?} tenant={:?} tags={:?} ids={:?} csv={:?}", request.query.q, request.query.limit, request.header.x_tenant, request.query.tags, request.query.ids, request.query.csv)) }))
    }
    async fn create_item(&self, request: S::CreateItemRequest) -> anyhow::Result<S::CreateItemResponse> {
        Ok(S::CreateItemResponse::Created(S::Echo { seen: Some(format!("name={:?} qty={:?}", request.body.name, request.body.qty)) }))
    }
    async fn adopt_pet(&self, request: S::AdoptPetRequest) -> anyhow::Result<S::AdoptPetResponse> {
        eprintln!("adopt\tpage={:?} sort={:?} note={:?} mode={:?} body={:?}", request.query.page, request.query.sort, request.query.note, request.header.x_mode, request.body);
        // answer with the other alias of the same member
        Ok(S::AdoptPetResponse::Ok(match request.body {
            S::Pet::Cat(c) => S::Pet::Dog(S::Dog { pet_type: if c.pet_type == S::CatPetType::Feline { S::DogPetType::Hound } else { S::DogPetType::Dog },
                                                  bark: Some(format!("page={:?} sort={:?} note={:?} mode={:?} lives={:?}", request.query.page, request.query.sort, request.query.note, request.header.x_mode, c.lives)) }),
            S::Pet::Dog(d) => S::Pet::Cat(S::Cat { pet_type: if d.pet_type == S::DogPetType::Hound { S::CatPetType::Feline } else { S::CatPetType::Cat }, lives: Some(d.bark.map(|b| b.len() as i64).unwrap_or(-1)) }),
        }))
    }
    async fn get_note(&self, request: S::GetNoteRequest) -> anyhow::Result<S::GetNoteResponse> {
        Ok(match request.header.x_want.as_deref() {
            Some("bin") => S::GetNoteResponse::Accepted(vec![0u8, 1, 2, 255, 10, 13]),
            Some("nf") => S::GetNoteResponse::NotFound(S::Echo { seen: Some("nf".to_string()) }),
            _ => S::GetNoteResponse::Ok("plain \u{fc} \"quoted\"\nline".to_string()),
        })
    }
    async fn get_article(&self, request: S::GetArticleRequest) -> anyhow::Result<S::GetArticleResponse> {
        Ok(S::GetArticleResponse::Ok(S::Echo { seen: Some(format!("slug={:?}", request.path.slug)) }))
    }
    async fn restart_job(&self, request: S::RestartJobRequest) -> anyhow::Result<S::RestartJobResponse> {
        if request.path.job_id == "busy" { return Ok(S::RestartJobResponse::Conflict); }
        Ok(S::RestartJobResponse::Accepted(S::Echo { seen: Some(format!("job={:?} reason={:?}", request.path.job_id, request.body.map(|b| b.reason))) }))
    }
}
fn main() {
    let rt = tokio::runtime::Builder::new_multi_thread().worker_threads(2).enable_all().build().unwrap();
    rt.block_on(async {
        let listener = tokio::net::TcpListener::bind("127.0.0.1:0").await.unwrap();
        let port = listener.local_addr().unwrap().port();
        tokio::spawn(async move { axum::serve(listener, S::router(Svc)).await.unwrap(); });
        let client = C::LoopClient::with_base_url(format!("http://127.0.0.1:{}", port)).unwrap();
        let mut r = C::RestartJobRequest::default(); r.path.job_id = "j1".to_string(); r.body = None;
        println!("1\t{:?}", client.restart_job(r).await.map_err(|e| format!("{:#}", e)));
        let mut r = C::RestartJobRequest::default(); r.path.job_id = "j/2 x".to_string(); r.body = Some(C::Reason { reason: Some("why".to_string()) });
        println!("2\t{:?}", client.restart_job(r).await.map_err(|e| format!("{:#}", e)));
        let mut r = C::RestartJobRequest::default(); r.path.job_id = "busy".to_string();
        println!("3\t{:?}", client.restart_job(r).await.map_err(|e| format!("{:#}", e)));
        let mut r = C::CreateItemRequest::default(); r.body = C::Item { name: "n \u{fc}".to_string(), qty: Some(3) };
        println!("4\t{:?}", client.create_item(r).await.map_err(|e| format!("{:#}", e)));
        let mut r = C::FindItemsRequest::default(); r.query.q = "a b&c=d".to_string(); r.query.limit = Some(5); r.header.x_tenant = Some("t1".to_string()); r.query.tags = Some(vec!["a b".to_string(), "c".to_string()]); r.query.ids = Some(vec![3, -4]); r.query.csv = Some(vec!["x".to_string(), "y z".to_string()]);
        println!("5\t{:?}", client.find_items(r).await.map_err(|e| format!("{:#}", e)));
        let mut r = C::FindItemsRequest::default(); r.query.q = "\u{fc}".to_string();
        println!("6\t{:?}", client.find_items(r).await.map_err(|e| format!("{:#}", e)));
        for (k, want) in [("11", None), ("12", Some("bin")), ("13", Some("nf"))] {
            let mut r = C::GetNoteRequest::default(); r.header.x_want = want.map(|s: &str| s.to_string());
            println!("{}\t{:?}", k, client.get_note(r).await.map_err(|e| format!("{:#}", e)));
        }
        for (k, slug) in [("14", ""), ("15", "ab-1"), ("16", "Not Allowed")] {
            let mut r = C::GetArticleRequest::default(); r.path.slug = slug.to_string();
            println!("{}\t{:?}", k, client.get_article(r).await.map_err(|e| format!("{:#}", e)));
        }
        for (k, pet, page, sort, note, mode) in [
            ("7", C::Pet::Cat(C::Cat { pet_type: C::CatPetType::Cat, lives: Some(9) }), None, None, None, None),
            ("8", C::Pet::Cat(C::Cat { pet_type: C::CatPetType::Feline, lives: None }), Some(3), Some(C::AdoptPetRequestQuerySort::Price), Some("x y".to_string()), Some("slow".to_string())),
            ("9", C::Pet::Dog(C::Dog { pet_type: C::DogPetType::Hound, bark: Some("woof".to_string()) }), None, Some(C::AdoptPetRequestQuerySort::Name), None, None),
            ("10", C::Pet::Dog(C::Dog { pet_type: C::DogPetType::Dog, bark: None }), Some(20), None, Some("none".to_string()), Some("fast".to_string())),
        ] {
            let mut r = C::AdoptPetRequest::default(); r.body = pet; r.query.page = page; r.query.sort = sort; r.query.note = note; r.header.x_mode = mode;
            println!("{}\t{:?}", k, client.adopt_pet(r).await.map_err(|e| format!("{:#}", e)));
        }
    });
}
'''

LOOP_EXPECT = {
    "1": 'Ok(Accepted(Echo { seen: Some("job=\\"j1\\" reason=None") }))',
    "2": 'Ok(Accepted(Echo { seen: Some("job=\\"j/2 x\\" reason=Some(Some(\\"why\\"))") }))',
    "3": "Ok(Conflict)",
    "4": 'Ok(Created(Echo { seen: Some("name=\\"n \u00fc\\" qty=Some(3)") }))',
    "5": 'Ok(Ok(Echo { seen: Some("q=\\"a b&c=d\\" limit=Some(5) tenant=Some(\\"t1\\") tags=Some([\\"a b\\", \\"c\\"]) ids=Some([3, -4]) csv=Some([\\"x\\", \\"y z\\"])") }))',
    "6": 'Ok(Ok(Echo { seen: Some("q=\\"\u00fc\\" limit=None tenant=None tags=None ids=None csv=None") }))',
    "11": 'Ok(Ok("plain \u00fc \\"quoted\\"\\nline"))',
    "12": "Ok(Accepted([0, 1, 2, 255, 10, 13]))",
    "13": 'Ok(NotFound(Echo { seen: Some("nf") }))',
    # either the client refuses the value (validation) or the handler sees it
    "14": 're:^(Err\\(".*[Vv]alidat.*|Ok\\(Ok\\(Echo \\{ seen: Some\\("slug=\\\\"\\\\""\\) \\}\\)\\))$',
    "15": 'Ok(Ok(Echo { seen: Some("slug=\\"ab-1\\"") }))',
    "16": 're:^Err\\(".*[Vv]alidat.*$',
    "7": 'Ok(Ok(Dog(Dog { bark: Some("page=None sort=None note=None mode=None lives=Some(9)"), pet_type: Dog })))',
    "8": 'Ok(Ok(Dog(Dog { bark: Some("page=Some(3) sort=Some(Price) note=Some(\\"x y\\") mode=Some(\\"slow\\") lives=None"), pet_type: Hound })))',
    "9": 'Ok(Ok(Cat(Cat { lives: Some(4), pet_type: Feline })))',
    "10": 'Ok(Ok(Cat(Cat { lives: Some(-1), pet_type: Cat })))',
}


def loopback_leg(viol):
    d = vlib.scratch("C06l")
    sp = os.path.join(d, "spec.json")
    json.dump(LOOP_SPEC, open(sp, "w"))
    oc, os_ = os.path.join(d, "client"), os.path.join(d, "server")
    rc1, t1 = vlib.oas(["generate", "client-mod", "-i", sp, "-o", oc, "-q"])
    rc2, t2 = vlib.oas(["generate", "server-mod", "-i", sp, "-o", os_, "-q"])
    if rc1 or rc2:
        viol.append((LOOP_SPEC, f"loopback spec: generation failed {t1[-100:]} {t2[-100:]}"))
        return 0
    ar = arena.Arena("C06l")
    ar.add_case(0, oc)
    ar.add_case(1, os_)
    ar.write_main(LOOP_MAIN)
    ok, diags, err = ar.cargo("build")
    if not ok:
        viol.append((LOOP_SPEC, f"loopback arena does not build: {(diags[0]['rendered'] if diags else err)[:500]}"))
        return 0
    rc, outp, errp = ar.run("", timeout=120)
    got = dict(l.split("\t", 1) for l in outp.split("\n") if "\t" in l)
    for k, want in LOOP_EXPECT.items():
        if (not re.search(want[3:], got.get(k) or "")) if want.startswith("re:") else got.get(k) != want:
            viol.append((LOOP_SPEC, f"loopback call {k}: the client returns {got.get(k)!r}, the handler was to see / answer {want!r} (rc={rc} {errp[-100:] if not got.get(k) else ''})"))
    return len(LOOP_EXPECT)
