#!/usr/bin/env python3
"""Regenerates MANIFEST.json from the table below (kept in one place so it stays valid)."""
import json, os
V = os.path.dirname(os.path.dirname(os.path.abspath(__file__)))
props = [json.loads(l) for l in open(os.path.join(V, "properties.jsonl"))]
ids = [p["id"] for p in props]

CLAIMS = {
 "C04": dict(
   text="Coq theorems (closed under the global context) about a model of the response-handler construction and of the emitted parse_response if-chain: for EVERY strictly sorted responses object over {100..599,1XX..5XX,default} with arbitrary per-status content, every status 100..599 and every Content-Type, the parser picks exact > range > default and never a variant of another status. Status/condition/content tables are regenerated from the Rust source on every run (translator); the hand model is tied by CLI + syn read-back correspondence on ~1.7k (quick) / ~7k (thorough) responses objects.",
   note="Trusted: Coq kernel + vm_compute, translator, extraction + OCaml driver, http::StatusCode constant table, mediatype parse model, hand model of responses.rs validated only on sampled inputs. Body decoding is not modelled (extraction kind only).",
   technique="Coq proof (induction over sorted response maps + finite sweeps by vm_compute) with source-to-Gallina translation of tables and differential correspondence of the hand model",
   design="§4 C04", engine="coq+translate+cli"),
}

checks = []
for i in ids:
    if i in CLAIMS:
        c = CLAIMS[i]
        checks.append({
            "property_id": i,
            "quick_cmd": f"bin/check {i} --tier quick",
            "thorough_cmd": f"bin/check {i} --tier thorough",
            "evidence_file": f"/verif/evidence/{i}.json",
            "replay_cmd_template": f"bin/check {i} --replay {{path}}",
            "engine": c["engine"],
            "level_claimed": {"category": "proof", "text": c["text"], "design_ref": c["design"]},
            "level_note": c["note"],
            "technique": c["technique"],
        })
na = [{"property_id": i, "reason": "check not built yet in this round (planned: Coq model + correspondence, see DESIGN.md §4); not claimed until its check runs"} for i in ids if i not in CLAIMS]
m = {
 "version": 1,
 "setup_cmd": "bin/setup",
 "hooks": {"guard": "oas3_gen_verif", "enable": "none needed: no hook commits exist; checks observe the CLI, the emitted files and the support crate's public API", "baseline_off_cmd": "cd /repo && cargo test --workspace --no-fail-fast --offline", "source_commits": [], "add_only": True},
 "engines": [
   {"name": "coq", "path": "coq/", "serves_properties": sorted(CLAIMS), "kind_free_text": "Coq 8.16.1 development: Lib, Gen (regenerated), Model, Proof, Props, Extract"},
   {"name": "vtool", "path": "tools/vtool", "serves_properties": sorted(CLAIMS), "kind_free_text": "Rust (syn): source-to-Gallina translator and read-back of emitted code"},
   {"name": "harness", "path": "bin/check, lib/*.py, ocaml/", "serves_properties": sorted(CLAIMS), "kind_free_text": "Python driver, OCaml drivers for extracted models"},
 ],
 "checks": checks,
 "not_applicable": na,
 "notes": "All claims are machine-checked Coq proofs about models tied to /repo on every run (translator and/or correspondence). See DESIGN.md.",
}
json.dump(m, open(os.path.join(V, "MANIFEST.json"), "w"), indent=1)
print("claims:", sorted(CLAIMS), "not_applicable:", len(na))
