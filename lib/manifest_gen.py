#!/usr/bin/env python3
"""Regenerates MANIFEST.json from the table below (kept in one place so it stays valid)."""
import json, os
V = os.path.dirname(os.path.dirname(os.path.abspath(__file__)))
props = [json.loads(l) for l in open(os.path.join(V, "properties.jsonl"))]
ids = [p["id"] for p in props]

CLAIMS = {
 "C04": dict(
   text="Coq theorems (closed under the global context) about a model of the response-handler construction and of the emitted parse_response if-chain: for EVERY strictly sorted responses object over {100..599,1XX..5XX,default} with arbitrary per-status content, every status 100..599 and every Content-Type, the parser picks exact > range > default and never a variant of another status. Status/condition/content tables are regenerated from the Rust source on every run (translator); the hand model is tied by CLI + syn read-back correspondence on ~1.7k (quick) / ~7k (thorough) responses objects.",
   note="Trusted: Coq kernel + vm_compute, translator, extraction + OCaml driver, http::StatusCode constant table, mediatype parse model, hand model of responses.rs validated only on sampled inputs. Body decoding is not modelled (extraction kind only).",
   technique="Coq proof (induction over sorted response maps + finite sweeps by vm_compute) with source-to-Gallina translation of tables and differential correspondence of the hand model",
   design="§4 C04", engine="coq+translate+cli"),
 "C20": dict(
   text="Coq theorems (closed under the global context) about a chunk-level model of the whole SSE stack (Utf8Stream with the Unicode Table 3-7 DFA, nom-streaming line parser, EventBuilder, both EventStreams): for EVERY well-formed UTF-8 byte stream and EVERY two ways of cutting it into chunks (no bound on sizes, counts or cut positions, empty chunks included) the same events are delivered in the same order and no byte is left undecoded (C20_chunk_independent, C20_nothing_left_over, C20_string_chunking, C20_line_prefix_stable, C20_utf8_conservation); a not-ready poll is a no-op (C20_pending_noop). The two input classes on which the unchanged tree violates the property are refuted by computed witnesses (C20_refuted_bom, C20_refuted_trailing_cr) and recorded as known findings. Tie: correspondence — the extracted poll-level machine and the real oas3_gen_support::EventStream run the same poll scripts (all 2^(n-1) chunkings of short streams, random long scripts with Pending polls, ill-formed bytes).",
   note="Trusted: Coq kernel + vm_compute (witnesses only), extraction + OCaml driver, tools/sse_probe, hand model of eventsource-stream 0.2.3/nom streaming semantics validated only on sampled scripts. Partial: the one-event-per-poll machine is tied to the chunk-level theorems by the Pending lemma and the correspondence, not by a simulation proof; refinement to the HTML standard's reading (sse_spec) is checked on all explored scripts, proved only on the Example; serde_json is a per-event decode function.",
   technique="Coq proof (big-step drain relation + prefix stability of the streaming parser + UTF-8 DFA scan lemmas, induction over chunk lists) with differential correspondence against the support crate on scripted in-memory streams",
   design="§4 C20", engine="coq+sse_probe"),
 "C09": dict(
   text="Coq theorems (closed under the global context): for EVERY name (any length, any characters) and EVERY any_ascii transliteration of its non-ASCII characters, to_rust_const_name yields a legal identifier; to_rust_field_name and to_rust_type_name yield legal identifiers outside narrow, decidable classes (result `_`, `r#crate`, `r#super`, illegal verbatim r#-pass-through; result `r#Self`), each of which is refuted by a computed witness and recorded as a known finding; the generator's keyword list (regenerated from source) covers the language's keywords. Struct-field de-duplication is refuted by witness (foo-bar, foo_bar, foo_bar_2). Tie: the real sanitisers compiled into a probe by #[path] and run against the extracted model on every string over the 14-symbol alphabet up to length 3 (quick) / 5 (thorough), all keywords, random Unicode; scope uniqueness searched through the CLI + syn read-back.",
   note="Trusted: Coq kernel + vm_compute (256-case character sweeps, keyword lists), translator (keyword lists), extraction, ident_probe, hand definition of identifier legality (legal_ident), hand model of inflections/regex sanitising on ASCII. Partial: uniqueness is proved for no scope yet (only refuted for struct fields / searched for fields and variants); module-item, method and header-constant scopes are not modelled.",
   technique="Coq proof (structural lemmas over character lists + 256-case sweeps by vm_compute) with #[path] differential correspondence, bounded-exhaustive",
   design="§4 C09", engine="coq+ident_probe+cli"),
 "C08": dict(
   text="Coq theorems (closed under the global context) about a model of the operation registry (filter at ingestion, _N uniquification, common-affix trimming): for EVERY operation list and filter, selection is set membership on whole base identifiers, each selected operation exactly once, in order (C08_selection_by_base); --only S and --exclude S partition the operations (C08_partition); the property's full statement (ids printed by `list` denote their rows) holds whenever base ids are distinct and have no common affix (C08_exact_outside_known) and is refuted otherwise by two computed witness families (C08_full_refuted: trimmed ids, _2 ids) recorded as one known finding. Tie: correspondence — real CLI `list operations` and server-mod --only/--exclude runs (1.5k quick) vs the extracted model registry.",
   note="Trusted: Coq kernel, extraction, hand model of operation_registry.rs / trim_common_affixes validated on sampled specs, python model of ingestion order (oas3 PathItem::methods order), the real sanitiser for base ids. OPTIONS/TRACE operations excluded (C12 finding).",
   technique="Coq proof (induction over the ingestion fold) with CLI differential correspondence",
   design="§4 C08", engine="coq+cli"),
 "C05": dict(
   text="Coq theorems (closed under the global context): the router registers exactly one (axum pattern, routing function, handler) entry per operation and nothing else, for EVERY operation list (C05_route_table, a permutation proof over the BTreeMap-insertion fold); the routing function is the method's own (regenerated HttpMethodFragment table); every response variant is sent with a status covered by the token it was declared for — all 66 unit tokens by computation over the regenerated HttpStatusCode/StatusCondition tables, unlisted exact codes for all n in 100..999 (C05_status_units, C05_status_unknown; this held only after the `fix:` commit for 3XX); handler errors map to 500 (translated shape); literal parts and parameter names of every accepted path-template segment are brace-free (C05_pattern_wellformed, induction over the tokenizer). Media type of the payload is refuted (always axum::Json) and recorded as a known finding. Tie: translator + CLI server-mod read back with syn (router(), handlers, IntoResponse arms) vs the extracted model.",
   note="Trusted: Coq kernel + vm_compute, translator, extraction, syn read-back, hand model of RouterFragment/ParsedPath. Partial: structural tier only — the compiled router is not run (axum/matchit matching, 404/405 and request extraction are library contracts not exercised; no tower oneshot in this round).",
   technique="Coq proof (permutation over an insertion fold, tokenizer induction, finite sweeps over regenerated tables) with translator + CLI/syn correspondence",
   design="§4 C05", engine="coq+translate+cli"),
 "C06": dict(
   text="Coq composition theorem over the C04 and C05 models (closed under the global context): for EVERY valid responses object and every declared non-default key with one content category, the status the generated server sends for that variant is parsed by the generated client as the variant of the same key, provided the key is exact or the range's representative status is not declared exactly (C06_response_roundtrip); the excluded classes are refuted by computed witnesses ({200,2XX}; default sent as 200) and recorded as known findings. Tie: translator (both sides' tables) + client-mod and server-mod generated by separate CLI runs, both read back with syn and composed on every response variant.",
   note="Trusted: as C04 and C05. Partial: only the response/status leg is composed; the request legs (path, query, header, body extract∘render) are not modelled in this round and there is no loopback run.",
   technique="Coq proof (composition of the C04 precedence theorem with the C05 status sweep) with CLI/syn correspondence of both generated sides",
   design="§4 C06", engine="coq+translate+cli"),
 "C01": dict(
   text="PARTIAL. rustc is the oracle for acceptance and is not modelled. Proved in Coq (closed under the global context): the serde-bound clause (rustc E0277) — the worklist propagation of request/response usage flags over the type-dependency graph ends, for every finite graph, within |worklist|+2|types|+1 steps (C01_worklist_terminates) and its result is closed downward along dependencies (C01_serde_usage_closed), so a type deriving Serialize/Deserialize only mentions types that implement it. Every other clause of well-formedness is sampled: feature-grammar specs x random points of the 1152-point flag lattice are emitted by the real CLI and type-checked by `cargo check` in an arena crate that depends only on the documented runtime crates and /repo's support crate (40 modules quick, 300 thorough); each rustc rejection is either a listed known finding (narrow pattern) or a VIOLATION with the spec as replay.",
   note="Trusted: rustc/cargo, the arena crate's dependency set (tools/arena/Cargo.toml), Coq kernel, hand model of serde_usage.rs (tied to the code only by the closure oracle on emitted derives and by rustc). `client` single-file mode is excluded (not self-contained by design: README generates types and client individually); ill-formed combinations: --only with --exclude and --all-schemas (clap group).",
   technique="Coq proof (worklist invariant + termination measure) for the serde-bound clause; arena `cargo check` of emitted modules as search/oracle for the rest",
   design="§4 C01", engine="coq+arena"),
 "C15": dict(
   text="Coq theorems (closed under the global context) about a model of the value-enum builder (both collision strategies) and of the emitted codecs (serde derive rename/alias semantics; the hand-written case-insensitive Deserialize): for EVERY list of enum values — merge: every declared value is accepted and every undeclared string rejected (C15_merge_accepts/_rejects); preserve: every declared value decodes and re-encodes to exactly itself, undeclared strings are rejected (C15_preserve_roundtrip/_rejects); relaxed: every ASCII letter-case spelling of a declared value is accepted and encodes as a declared value, anything else is rejected (C15_relaxed_accepts/_rejects — the full statement, true since the `fix:` commit adding alias arms). Refuted by witness and kept as known findings: preserve-mode variant-name collision (rustc E0428) and non-string values turned into text. Tie: correspondence — emitted enums for ~800 value lists x 3 modes read back with syn vs the extracted model, and a compiled sample probed in the arena (serde_json) with every declared value, its case variants and near misses; anyOf known+open-string wrapper probed as well.",
   note="Trusted: Coq kernel, extraction, serde derive semantics for unit variants (library contract, exercised by the arena), hand model of value_enums.rs/NormalizedVariant, C09's to_rust_type_name model for variant names. Not covered: nullable enums; non-ASCII values.",
   technique="Coq proof (fold invariant: accepted strings = declared texts) with CLI/syn and compiled-code (arena) correspondence, bounded-exhaustive value lists",
   design="§4 C15", engine="coq+cli+arena"),
 "C02": dict(
   text="Coq theorems (closed under the global context) on the tier-A fragment (string/integer/boolean, arrays, nested objects with required/optional/nullable members, additionalProperties false), by size induction over schemas: every document valid against the schema is accepted by the emitted type (C02_accepts); re-serialising the decoded value yields a document that is valid again and carries the same value under the same wire name for every declared member and array element, absent and null being interchangeable — outside the recorded class required+nullable (C02_roundtrip); missing required members, wrong JSON types and unknown members under additionalProperties:false are rejected (C02_rejects_*). The required+nullable class is refuted by a computed witness and kept as two known findings. Tie: correspondence — types emitted by the CLI are compiled in the arena and serde_json from_str/to_string is compared with the extracted dec/enc on schema-directed instances and near-miss mutants; the model's validity verdict is cross-checked with python jsonschema (Draft 2020-12).",
   note="Trusted: Coq kernel, extraction, serde derive semantics (library contract exercised by the arena), hand model of which members become Option / skip_serializing_none / deny_unknown_fields, python jsonschema as independent validity oracle. Outside the fragment (not modelled): formats, f64 numbers, maps, unions (C14), enums (C15), defaults (C17); $ref indirection is transparent for the codec.",
   technique="Coq proof (size induction over nested schemas; accept / round-trip / reject theorems) with compiled-code (arena) correspondence and jsonschema cross-validation",
   design="§4 C02", engine="coq+cli+arena"),
 "C17": dict(
   text="Coq theorems (closed under the global context) about a model of the default-coercion table (json_to_rust_literal): for EVERY string, boolean and integer (within i64 / u64) a default of the member's own JSON type is rendered as a literal that means exactly that value; null means None; Option members get Some(literal) (C17_string, C17_bool, C17_int_signed, C17_int_unsigned, C17_null, C17_option_wraps). Refuted by witness and kept as known findings: defaults on enum-typed / array / object / date / uuid members become the type's default (C17_refuted_other), out-of-width integer literals (C17_refuted_width), builders ignore defaults (C17_refuted_builder). Tie: exhaustive correspondence over 11 member types x default values of every JSON type x {required, optional} x {builders on, off}: the emitted #[default(..)] expression read back with syn vs the extracted model, and every case compiled in the arena and observed three ways (decode of {}, T::default(), T::builder().build()).",
   note="Trusted: Coq kernel, extraction, hand model of coercion.rs (floats outside the model, observed only), better_default / serde(default) / bon semantics exercised in the arena rather than modelled. The theorems are case analyses over the coercion table; the agreement of the three ways is an observation of the arena (exhaustive over the lattice), not a theorem.",
   technique="Coq proof (case analysis over the coercion table, all strings/integers) with exhaustive syn + compiled-code (arena) correspondence",
   design="§4 C17", engine="coq+cli+arena"),
 "C11": dict(
   text="PARTIAL. Coq theorems (closed under the global context): the parse step erases key order — building the key-sorted map (BTreeMap) from ANY permutation of an object's members gives the same map, for every object at every level (C11_btree_perm, via commutation of insertion on sorted lists and transitivity/totality of byte-lexicographic order, both proved); iteration is in sorted key order (C11_btree_sorted); the one hash-set enumeration that reaches generator state is order-irrelevant (C11_marking_order_irrelevant). A syntactic inventory of every iteration over a HashMap/HashSet in non-test source is regenerated on each run and must equal the reviewed list. Search/tie: separate `generate` processes on the same file, random key permutations at every object level, and YAML re-encodings, for fixtures + feature-grammar specs x 4 modes, compared byte-for-byte (Source line masked).",
   note="Trusted: Coq kernel, the inventory tool (syntactic: typed bindings/fields/itertools adaptors), python json/yaml. Not modelled: clock, environment, terminal width, real hash seeds — covered only by repeated-process runs; that each generator step is a function of the parsed document is Rust's semantics, not a theorem.",
   technique="Coq proof (permutation invariance of sorted-map construction; strict total order on byte strings) + regenerated inventory obligation + CLI byte-comparison of re-serialised specs",
   design="§4 C11", engine="coq+inventory+cli"),
}

checks = []
for i in ids:
    if i in CLAIMS:
        c = CLAIMS[i]
        checks.append({
            "property_id": i,
            "quick_cmd": f"bin/check {i} --tier quick",
            "thorough_cmd": f"bin/check {i} --tier thorough",
            "evidence_file": f"/verif/evidence/{i}.json",
            "replay_cmd_template": f"bin/check {i} --replay {{path}}",
            "engine": c["engine"],
            "level_claimed": {"category": "proof", "text": c["text"], "design_ref": c["design"]},
            "level_note": c["note"],
            "technique": c["technique"],
        })
na = [{"property_id": i, "reason": "check not built yet in this round (planned: Coq model + correspondence, see DESIGN.md §4); not claimed until its check runs"} for i in ids if i not in CLAIMS]
m = {
 "version": 1,
 "setup_cmd": "bin/setup",
 "hooks": {"guard": "oas3_gen_verif", "enable": "none needed: no hook commits exist; checks observe the CLI, the emitted files and the support crate's public API", "baseline_off_cmd": "cd /repo && cargo test --workspace --no-fail-fast --offline", "source_commits": [], "add_only": True},
 "engines": [
   {"name": "coq", "path": "coq/", "serves_properties": sorted(CLAIMS), "kind_free_text": "Coq 8.16.1 development: Lib, Gen (regenerated), Model, Proof, Props, Extract"},
   {"name": "vtool", "path": "tools/vtool", "serves_properties": sorted(CLAIMS), "kind_free_text": "Rust (syn): source-to-Gallina translator and read-back of emitted code"},
   {"name": "harness", "path": "bin/check, lib/*.py, ocaml/", "serves_properties": sorted(CLAIMS), "kind_free_text": "Python driver, OCaml drivers for extracted models"},
 ],
 "checks": checks,
 "not_applicable": na,
 "notes": "All claims are machine-checked Coq proofs about models tied to /repo on every run (translator and/or correspondence). See DESIGN.md.",
}
json.dump(m, open(os.path.join(V, "MANIFEST.json"), "w"), indent=1)
print("claims:", sorted(CLAIMS), "not_applicable:", len(na))
