//! Drives oas3_gen_support::EventStream over scripted chunk streams (no socket).
//! stdin: one script per line: blank-separated tokens `C<hex bytes>` (chunk, may be empty: `C`) | `P` (Pending).
//! stdout: per script one line: items separated by blanks: `O<hex of raw JSON text>` | `EJ` (JSON error)
//!         | `EU` (SSE/UTF-8/transport error) ; `PANIC` if polling panicked.
use std::{
  io::BufRead,
  panic::{catch_unwind, AssertUnwindSafe},
  pin::Pin,
  task::{Context, Poll},
};

use futures::{Stream, StreamExt};
use oas3_gen_support::{EventStream, EventStreamError};

enum Step {
  Chunk(Vec<u8>),
  Pending,
}

struct Scripted {
  steps: std::vec::IntoIter<Step>,
}

impl Stream for Scripted {
  type Item = Result<bytes::Bytes, std::io::Error>;
  fn poll_next(mut self: Pin<&mut Self>, cx: &mut Context<'_>) -> Poll<Option<Self::Item>> {
    match self.steps.next() {
      Some(Step::Chunk(c)) => Poll::Ready(Some(Ok(bytes::Bytes::from(c)))),
      Some(Step::Pending) => {
        cx.waker().wake_by_ref();
        Poll::Pending
      }
      None => Poll::Ready(None),
    }
  }
}

fn unhex(s: &str) -> Vec<u8> {
  (0..s.len() / 2).map(|i| u8::from_str_radix(&s[2 * i..2 * i + 2], 16).unwrap()).collect()
}
fn hex(b: &[u8]) -> String {
  b.iter().map(|x| format!("{x:02x}")).collect()
}

fn run_script(line: &str) -> String {
  let steps: Vec<Step> = line
    .split_whitespace()
    .map(|t| if t == "P" { Step::Pending } else { Step::Chunk(unhex(&t[1..])) })
    .collect();
  let r = catch_unwind(AssertUnwindSafe(|| {
    let body = reqwest::Body::wrap_stream(Scripted { steps: steps.into_iter() });
    let resp = reqwest::Response::from(http::Response::new(body));
    let mut es = EventStream::<Box<serde_json::value::RawValue>>::from_response(resp);
    let mut out = vec![];
    // a hand-rolled executor that honours the waker contract: `Pending` without a wake-up = the consumer is
    // parked forever (reported as STALLED instead of hanging)
    struct Count(std::sync::atomic::AtomicUsize);
    impl futures::task::ArcWake for Count {
      fn wake_by_ref(a: &std::sync::Arc<Self>) {
        a.0.fetch_add(1, std::sync::atomic::Ordering::SeqCst);
      }
    }
    let count = std::sync::Arc::new(Count(std::sync::atomic::AtomicUsize::new(0)));
    let waker = futures::task::waker(count.clone());
    let mut cx = Context::from_waker(&waker);
    let mut n = 0;
    loop {
      let before = count.0.load(std::sync::atomic::Ordering::SeqCst);
      match es.poll_next_unpin(&mut cx) {
        Poll::Ready(Some(item)) => {
          match item {
            Ok(v) => out.push(format!("O{}", hex(v.get().as_bytes()))),
            Err(EventStreamError::JsonDeserialize { .. }) => out.push("EJ".to_string()),
            Err(EventStreamError::SseParse(_)) => out.push("EU".to_string()),
          }
          n += 1;
          if n > 100_000 {
            out.push("RUNAWAY".into());
            break;
          }
        }
        Poll::Ready(None) => break,
        Poll::Pending => {
          if count.0.load(std::sync::atomic::Ordering::SeqCst) == before {
            out.push("STALLED".to_string());
            break;
          }
        }
      }
    }
    out.join(" ")
  }));
  match r {
    Ok(s) => s,
    Err(_) => "PANIC".to_string(),
  }
}

fn main() {
  std::panic::set_hook(Box::new(|_| {}));
  let stdin = std::io::stdin();
  for line in stdin.lock().lines() {
    let line = line.unwrap();
    println!("{}", run_script(&line));
  }
}
