/* LD_PRELOAD shim for C11: shifts the wall clock (CLOCK_REALTIME, gettimeofday, time) by VERIF_CLOCK_OFFSET seconds,
   so that a dependence of the generator's output on the date shows up as a byte difference. */
#define _GNU_SOURCE
#include <dlfcn.h>
#include <stdlib.h>
#include <sys/time.h>
#include <time.h>

static long long shift(void) {
  const char *o = getenv("VERIF_CLOCK_OFFSET");
  return o ? atoll(o) : 0;
}

int clock_gettime(clockid_t id, struct timespec *ts) {
  static int (*real)(clockid_t, struct timespec *) = 0;
  if (!real) real = (int (*)(clockid_t, struct timespec *))dlsym(RTLD_NEXT, "clock_gettime");
  int r = real(id, ts);
  if (r == 0 && ts && (id == CLOCK_REALTIME || id == CLOCK_REALTIME_COARSE)) ts->tv_sec += shift();
  return r;
}

int gettimeofday(struct timeval *tv, void *tz) {
  static int (*real)(struct timeval *, void *) = 0;
  if (!real) real = (int (*)(struct timeval *, void *))dlsym(RTLD_NEXT, "gettimeofday");
  int r = real(tv, tz);
  if (r == 0 && tv) tv->tv_sec += shift();
  return r;
}

time_t time(time_t *out) {
  static time_t (*real)(time_t *) = 0;
  if (!real) real = (time_t (*)(time_t *))dlsym(RTLD_NEXT, "time");
  time_t t = real(0) + shift();
  if (out) *out = t;
  return t;
}
