//! Calls the real sanitisers of /repo (source file compiled in by path).
//! stdin: one name per line as hex of its UTF-8 bytes.
//! stdout: `<field> <type> <const> <decomposition>` — results as hex; decomposition = per char
//! `A<hex byte>` for ASCII, `U<hex of any_ascii_char>` for non-ASCII (the model's input form).
#![allow(dead_code, unused_imports)]
use std::io::{BufRead, Write};

#[path = "/repo/crates/oas3-gen/src/generator/naming/identifiers.rs"]
mod identifiers;

fn hex(b: &[u8]) -> String {
  if b.is_empty() {
    return "-".into();
  }
  b.iter().map(|x| format!("{x:02x}")).collect()
}

fn main() {
  let stdin = std::io::stdin();
  let out = std::io::stdout();
  let mut out = std::io::BufWriter::new(out.lock());
  for line in stdin.lock().lines() {
    let line = line.unwrap();
    let t = line.trim();
    let bytes: Vec<u8> = if t == "-" { vec![] } else { (0..t.len() / 2).map(|i| u8::from_str_radix(&t[2 * i..2 * i + 2], 16).unwrap()).collect() };
    let s = String::from_utf8(bytes).expect("utf8 input");
    let r = std::panic::catch_unwind(|| {
      (identifiers::to_rust_field_name(&s), identifiers::to_rust_type_name(&s), identifiers::to_rust_const_name(&s))
    });
    let dec: Vec<String> = s
      .chars()
      .map(|c| if c.is_ascii() { format!("A{:02x}", c as u8) } else { format!("U{}", hex(any_ascii::any_ascii_char(c).as_bytes())) })
      .collect();
    match r {
      Ok((f, t, c)) => writeln!(out, "{} {} {} {}", hex(f.as_bytes()), hex(t.as_bytes()), hex(c.as_bytes()), dec.join(",")).unwrap(),
      Err(_) => writeln!(out, "PANIC PANIC PANIC {}", dec.join(",")).unwrap(),
    }
  }
}
