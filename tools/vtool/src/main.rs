mod inventory;
mod readback;
mod translate;
mod translate2;

use std::path::PathBuf;

fn main() {
  let args: Vec<String> = std::env::args().collect();
  let cmd = args.get(1).map(String::as_str).unwrap_or("");
  let code = match cmd {
    "translate" => {
      let repo = PathBuf::from(args.get(2).expect("repo"));
      let out = PathBuf::from(args.get(3).expect("outdir"));
      match translate::run(&repo, &out) {
        Ok(rep) => {
          println!("{}", serde_json::to_string_pretty(&rep).unwrap());
          0
        }
        Err(e) => {
          eprintln!("translate: {e}");
          2
        }
      }
    }
    "parse-response" => readback::cmd_parse_response(&args[2..]),
    "dump" => readback::cmd_dump(&args[2..]),
    "inventory" => {
      let repo = PathBuf::from(args.get(2).expect("repo"));
      println!("{}", serde_json::to_string_pretty(&inventory::run(&repo)).unwrap());
      0
    }
    "server" => readback::cmd_server(&args[2..]),
    "skeleton" => readback::cmd_skeleton(&args[2..]),
    _ => {
      eprintln!("usage: vtool translate <repo> <outdir> | parse-response <files..> | dump <files..>");
      2
    }
  };
  std::process::exit(code);
}
