//! Further translated tables (added property by property).
use std::path::Path;

use crate::translate::R;

pub fn all(_repo: &Path) -> Vec<(String, R<String>)> {
  vec![]
}
