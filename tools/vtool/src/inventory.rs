//! Syntactic inventories over the non-test sources of /repo (used as proof-obligation side conditions):
//!  hash   — iteration over bindings/fields whose type or initialiser is a HashMap/HashSet
//!  panic  — potential panic sites (unwrap/expect/panic!/unreachable!/Ident::new/format_ident!/indexing)
//!  splice — places where a String becomes tokens other than through a string literal / #interpolation
use std::{collections::BTreeMap, fs, path::Path};

use serde_json::{json, Value};
use syn::{visit::Visit, Expr, ImplItem, Item};

use crate::translate::canon_tokens;

fn toks<T: quote::ToTokens>(t: &T) -> String {
  canon_tokens(quote::quote!(#t))
}

fn is_test_attr(attrs: &[syn::Attribute]) -> bool {
  attrs.iter().any(|a| {
    let t = toks(&a.meta);
    t == "test" || t.starts_with("cfg(test") || t == "tokio::test"
  })
}

#[derive(Default)]
struct Sites {
  file: String,
  func: String,
  hash_names: Vec<String>,
  out: BTreeMap<String, BTreeMap<String, usize>>, // kind -> key -> count
}

impl Sites {
  fn add(&mut self, kind: &str, what: String) {
    let key = format!("{}::{}::{}", self.file, self.func, what);
    *self.out.entry(kind.to_string()).or_default().entry(key).or_default() += 1;
  }
  fn root_name(e: &Expr) -> Option<String> {
    match e {
      Expr::Path(p) => p.path.segments.last().map(|s| s.ident.to_string()),
      Expr::Field(f) => match &f.member {
        syn::Member::Named(i) => Some(i.to_string()),
        _ => None,
      },
      Expr::Reference(r) => Self::root_name(&r.expr),
      Expr::Paren(p) => Self::root_name(&p.expr),
      Expr::MethodCall(m) if ["clone", "as_ref", "borrow"].contains(&m.method.to_string().as_str()) => Self::root_name(&m.receiver),
      _ => None,
    }
  }
}

fn mentions_hash(s: &str) -> bool {
  s.contains("HashMap") || s.contains("HashSet")
}

impl<'a> Visit<'a> for Sites {
  fn visit_local(&mut self, l: &'a syn::Local) {
    let pat = toks(&l.pat);
    let init = l.init.as_ref().map(|i| toks(&*i.expr)).unwrap_or_default();
    if mentions_hash(&pat) || mentions_hash(&init) {
      // binding name(s): identifiers in the pattern before any ':'
      let name = pat.split(':').next().unwrap_or("").trim_start_matches("mut ").to_string();
      for n in name.split(|c: char| !(c.is_alphanumeric() || c == '_')).filter(|x| !x.is_empty() && *x != "mut") {
        self.hash_names.push(n.to_string());
      }
    }
    syn::visit::visit_local(self, l);
  }
  fn visit_expr_method_call(&mut self, m: &'a syn::ExprMethodCall) {
    let name = m.method.to_string();
    if ["iter", "into_iter", "keys", "values", "drain", "into_keys", "into_values", "iter_mut", "values_mut"].contains(&name.as_str()) {
      if let Some(r) = Sites::root_name(&m.receiver) {
        if self.hash_names.contains(&r) {
          self.add("hash", format!("{r}.{name}()"));
        }
      }
      // itertools adaptors that return a HashMap, iterated without an intermediate binding
      if let Expr::MethodCall(inner) = &*m.receiver {
        let im = inner.method.to_string();
        if ["counts_by", "counts", "into_group_map", "into_group_map_by"].contains(&im.as_str()) {
          self.add("hash", format!("{im}(..).{name}()"));
        }
      }
    }
    if ["enable_builders", "no_helpers", "include_all_headers"].contains(&name.as_str()) && m.args.is_empty() {
      self.add("flags", format!("{name}()"));
    }
    if name == "unwrap" || name == "expect" {
      let recv = toks(&*m.receiver);
      let short: String = recv.chars().take(60).collect();
      self.add("panic", format!("{name}:{short}"));
    }
    if name == "parse" {
      let recv = toks(&*m.receiver);
      if recv.starts_with("format!") || recv.contains("to_string()") {
        let short: String = recv.chars().take(70).collect();
        self.add("splice", format!("parse:{short}"));
      }
    }
    syn::visit::visit_expr_method_call(self, m);
  }
  fn visit_expr_for_loop(&mut self, f: &'a syn::ExprForLoop) {
    if let Some(r) = Sites::root_name(&f.expr) {
      if self.hash_names.contains(&r) {
        self.add("hash", format!("for-in {r}"));
      }
    }
    syn::visit::visit_expr_for_loop(self, f);
  }
  fn visit_expr_index(&mut self, i: &'a syn::ExprIndex) {
    let t: String = toks(i).chars().take(60).collect();
    self.add("panic", format!("index:{t}"));
    syn::visit::visit_expr_index(self, i);
  }
  fn visit_expr_call(&mut self, c: &'a syn::ExprCall) {
    let f = toks(&*c.func);
    if f.ends_with("Ident::new") || f.ends_with("Ident::new_raw") {
      self.add("panic", format!("call:{f}"));
      self.add("splice", format!("call:{f}"));
    }
    if f.ends_with("parse_str") || f.ends_with("TokenStream::from_str") || f.starts_with("Literal::") || f.contains("::Literal::") {
      let args: String = c.args.iter().map(|a| toks(a)).collect::<Vec<_>>().join(",").chars().take(50).collect();
      self.add("splice", format!("call:{f}({args})"));
    }
    syn::visit::visit_expr_call(self, c);
  }
  fn visit_macro(&mut self, m: &'a syn::Macro) {
    let name = m.path.segments.last().map(|s| s.ident.to_string()).unwrap_or_default();
    let body = canon_tokens(m.tokens.clone());
    match name.as_str() {
      "panic" | "unreachable" | "todo" | "unimplemented" | "assert" | "assert_eq" | "assert_ne" => {
        let short: String = body.chars().take(50).collect();
        self.add("panic", format!("{name}!:{short}"));
      }
      "format_ident" => {
        let short: String = body.chars().take(60).collect();
        self.add("panic", format!("format_ident!:{short}"));
        self.add("splice", format!("format_ident!:{short}"));
      }
      "quote" => {
        // a spec-derived string used as a *format template* inside emitted code
        for pat in ["write!(f,#", "format!(#", "println!(#", "panic!(#"] {
          if body.contains(pat) {
            let idx = body.find(pat).unwrap();
            let short: String = body[idx..].chars().take(40).collect();
            self.add("splice", format!("template:{short}"));
          }
        }
        // nested macros inside quote! are token soup: scan for format_ident-free cases only
      }
      _ => {}
    }
    // descend into macro arguments that parse as expressions (e.g. vec![..], matches!(..)) is not attempted
    syn::visit::visit_macro(self, m);
  }
}

fn walk_items(items: &[Item], sites: &mut Sites, prefix: &str) {
  for it in items {
    match it {
      Item::Fn(f) => {
        if is_test_attr(&f.attrs) {
          continue;
        }
        sites.func = format!("{prefix}{}", f.sig.ident);
        sites.hash_names.clear();
        for a in &f.sig.inputs {
          let t = toks(a);
          if mentions_hash(&t) {
            if let Some(n) = t.split(':').next() {
              sites.hash_names.push(n.trim_start_matches("mut ").to_string());
            }
          }
        }
        sites.visit_block(&f.block);
      }
      Item::Impl(imp) => {
        if is_test_attr(&imp.attrs) {
          continue;
        }
        let ty = toks(&*imp.self_ty);
        for ii in &imp.items {
          if let ImplItem::Fn(f) = ii {
            if is_test_attr(&f.attrs) {
              continue;
            }
            sites.func = format!("{prefix}{ty}::{}", f.sig.ident);
            sites.hash_names.clear();
            for a in &f.sig.inputs {
              let t = toks(a);
              if mentions_hash(&t) {
                if let Some(n) = t.split(':').next() {
                  sites.hash_names.push(n.trim_start_matches("mut ").to_string());
                }
              }
            }
            sites.visit_block(&f.block);
          }
        }
      }
      Item::Mod(m) => {
        if is_test_attr(&m.attrs) || m.ident == "tests" {
          continue;
        }
        if let Some((_, its)) = &m.content {
          walk_items(its, sites, &format!("{prefix}{}::", m.ident));
        }
      }
      Item::Static(s) => {
        sites.func = format!("{prefix}static {}", s.ident);
        sites.hash_names.clear();
        sites.visit_expr(&s.expr);
      }
      _ => {}
    }
  }
}

/// struct fields of hash type are remembered globally by field name
fn hash_fields(items: &[Item], acc: &mut Vec<String>) {
  for it in items {
    match it {
      Item::Struct(s) => {
        for f in &s.fields {
          if mentions_hash(&toks(&f.ty)) {
            if let Some(i) = &f.ident {
              acc.push(i.to_string());
            }
          }
        }
      }
      Item::Mod(m) => {
        if let Some((_, its)) = &m.content {
          hash_fields(its, acc);
        }
      }
      _ => {}
    }
  }
}

fn rs_files(dir: &Path, out: &mut Vec<std::path::PathBuf>) {
  if let Ok(rd) = fs::read_dir(dir) {
    let mut es: Vec<_> = rd.flatten().collect();
    es.sort_by_key(|e| e.path());
    for e in es {
      let p = e.path();
      if p.is_dir() {
        if p.file_name().is_some_and(|n| n == "tests" || n == "fixtures") {
          continue;
        }
        rs_files(&p, out);
      } else if p.extension().is_some_and(|x| x == "rs") {
        out.push(p);
      }
    }
  }
}

pub fn run(repo: &Path) -> Value {
  let mut files = vec![];
  rs_files(&repo.join("crates/oas3-gen/src"), &mut files);
  rs_files(&repo.join("crates/oas3-gen-support/src"), &mut files);
  let mut all: BTreeMap<String, BTreeMap<String, usize>> = BTreeMap::new();
  let mut errors = vec![];
  for p in files {
    let rel = p.strip_prefix(repo).unwrap_or(&p).to_string_lossy().to_string();
    let src = match fs::read_to_string(&p) {
      Ok(s) => s,
      Err(e) => {
        errors.push(format!("{rel}: {e}"));
        continue;
      }
    };
    let file = match syn::parse_file(&src) {
      Ok(f) => f,
      Err(e) => {
        errors.push(format!("{rel}: {e}"));
        continue;
      }
    };
    let mut sites = Sites { file: rel.clone(), ..Default::default() };
    let mut fields = vec![];
    hash_fields(&file.items, &mut fields);
    // field names of hash type are visible in every function of the file
    let saved = fields.clone();
    walk_with_fields(&file.items, &mut sites, &saved);
    for (k, m) in sites.out {
      let e = all.entry(k).or_default();
      for (key, n) in m {
        *e.entry(key).or_default() += n;
      }
    }
  }
  json!({"errors": errors, "sites": all})
}

fn walk_with_fields(items: &[Item], sites: &mut Sites, fields: &[String]) {
  // wrapper: Sites::hash_names is cleared per function; re-seed with the file's hash-typed field names
  struct Seeder<'f> {
    fields: &'f [String],
  }
  let _ = Seeder { fields };
  walk_items_seeded(items, sites, "", fields);
}

fn walk_items_seeded(items: &[Item], sites: &mut Sites, prefix: &str, fields: &[String]) {
  for it in items {
    match it {
      Item::Fn(_) | Item::Static(_) => {
        let one = std::slice::from_ref(it);
        walk_one(one, sites, prefix, fields);
      }
      Item::Impl(imp) => {
        if is_test_attr(&imp.attrs) {
          continue;
        }
        let ty = toks(&*imp.self_ty);
        for ii in &imp.items {
          if let ImplItem::Fn(f) = ii {
            if is_test_attr(&f.attrs) {
              continue;
            }
            sites.func = format!("{prefix}{ty}::{}", f.sig.ident);
            sites.hash_names = fields.to_vec();
            for a in &f.sig.inputs {
              let t = toks(a);
              if mentions_hash(&t) {
                if let Some(n) = t.split(':').next() {
                  sites.hash_names.push(n.trim_start_matches("mut ").to_string());
                }
              }
            }
            sites.visit_block(&f.block);
          }
        }
      }
      Item::Mod(m) => {
        if is_test_attr(&m.attrs) || m.ident == "tests" {
          continue;
        }
        if let Some((_, its)) = &m.content {
          walk_items_seeded(its, sites, &format!("{prefix}{}::", m.ident), fields);
        }
      }
      _ => {}
    }
  }
}

fn walk_one(items: &[Item], sites: &mut Sites, prefix: &str, fields: &[String]) {
  for it in items {
    match it {
      Item::Fn(f) => {
        if is_test_attr(&f.attrs) {
          continue;
        }
        sites.func = format!("{prefix}{}", f.sig.ident);
        sites.hash_names = fields.to_vec();
        for a in &f.sig.inputs {
          let t = toks(a);
          if mentions_hash(&t) {
            if let Some(n) = t.split(':').next() {
              sites.hash_names.push(n.trim_start_matches("mut ").to_string());
            }
          }
        }
        sites.visit_block(&f.block);
      }
      Item::Static(s) => {
        sites.func = format!("{prefix}static {}", s.ident);
        sites.hash_names = fields.to_vec();
        sites.visit_expr(&s.expr);
      }
      _ => {}
    }
  }
}
