//! Source-to-Gallina translator for the table-shaped parts of oas3-gen.
//!
//! Reads the *current* /repo sources with `syn`, accepts only restricted shapes
//! (first-order `match`es over enum constructors / string literals whose right-hand
//! sides are literals, paths or `quote!{..}` token strings) and prints Gallina
//! definitions.  Anything outside the accepted shape is an `Err` — the caller
//! reports a broken tie; nothing is skipped silently.

use std::{collections::BTreeMap, fmt::Write as _, fs, path::Path};

use proc_macro2::{Delimiter, TokenStream, TokenTree};
use syn::{
  visit::Visit, Arm, Block, Expr, ExprMatch, File, ImplItem, ImplItemFn, Item, Lit, Pat, Stmt,
};

pub type R<T> = Result<T, String>;

pub fn parse_file(p: &Path) -> R<File> {
  let src = fs::read_to_string(p).map_err(|e| format!("read {}: {e}", p.display()))?;
  syn::parse_file(&src).map_err(|e| format!("parse {}: {e}", p.display()))
}

/// Token text with a canonical spacing: no blanks except between two
/// identifier/literal-like tokens.
pub fn canon_tokens(ts: TokenStream) -> String {
  fn go(ts: TokenStream, out: &mut String) {
    for tt in ts {
      match tt {
        TokenTree::Group(g) => {
          let (o, c) = match g.delimiter() {
            Delimiter::Parenthesis => ("(", ")"),
            Delimiter::Brace => ("{", "}"),
            Delimiter::Bracket => ("[", "]"),
            Delimiter::None => ("", ""),
          };
          out.push_str(o);
          go(g.stream(), out);
          out.push_str(c);
        }
        TokenTree::Ident(i) => {
          if out.chars().last().is_some_and(|c| c.is_alphanumeric() || c == '_' || c == '"') {
            out.push(' ');
          }
          out.push_str(&i.to_string());
        }
        TokenTree::Literal(l) => {
          if out.chars().last().is_some_and(|c| c.is_alphanumeric() || c == '_' || c == '"') {
            out.push(' ');
          }
          out.push_str(&l.to_string());
        }
        TokenTree::Punct(p) => {
          if p.as_char() == '>' && out.ends_with(',') {
            out.pop();
          }
          out.push(p.as_char())
        }
      }
    }
  }
  let mut s = String::new();
  go(ts, &mut s);
  s
}

pub fn coq_str(s: &str) -> String {
  // Coq string literal: double the quotes. Only printable ASCII expected.
  let mut o = String::from("\"");
  for c in s.chars() {
    if c == '"' {
      o.push_str("\"\"");
    } else {
      o.push(c);
    }
  }
  o.push('"');
  o
}

fn self_ty_name(imp: &syn::ItemImpl) -> Option<String> {
  if let syn::Type::Path(tp) = &*imp.self_ty {
    tp.path.segments.last().map(|s| s.ident.to_string())
  } else {
    None
  }
}

pub fn find_fn<'a>(file: &'a File, self_ty: &str, trait_: Option<&str>, name: &str) -> R<&'a ImplItemFn> {
  for it in &file.items {
    if let Item::Impl(imp) = it {
      if self_ty_name(imp).as_deref() != Some(self_ty) {
        continue;
      }
      let tr = imp.trait_.as_ref().and_then(|(_, p, _)| p.segments.last().map(|s| s.ident.to_string()));
      if tr.as_deref() != trait_ {
        continue;
      }
      for ii in &imp.items {
        if let ImplItem::Fn(f) = ii {
          if f.sig.ident == name {
            return Ok(f);
          }
        }
      }
    }
  }
  Err(format!("fn {self_ty}::{name} (trait {trait_:?}) not found"))
}

pub fn find_enum(file: &File, name: &str) -> R<Vec<(String, usize)>> {
  for it in &file.items {
    if let Item::Enum(e) = it {
      if e.ident == name {
        return Ok(
          e.variants
            .iter()
            .map(|v| {
              (
                v.ident.to_string(),
                match &v.fields {
                  syn::Fields::Unit => 0,
                  syn::Fields::Unnamed(u) => u.unnamed.len(),
                  syn::Fields::Named(n) => n.named.len(),
                },
              )
            })
            .collect(),
        );
      }
    }
  }
  Err(format!("enum {name} not found"))
}

struct MatchFinder<'a> {
  found: Vec<&'a ExprMatch>,
}
impl<'a> Visit<'a> for MatchFinder<'a> {
  fn visit_expr_match(&mut self, m: &'a ExprMatch) {
    self.found.push(m);
    // do not descend: we want outermost matches only
  }
}

/// The unique outermost `match` expression of a function body.
pub fn sole_match(block: &Block) -> R<&ExprMatch> {
  let mut f = MatchFinder { found: vec![] };
  f.visit_block(block);
  if f.found.len() == 1 {
    Ok(f.found[0])
  } else {
    Err(format!("expected exactly one outermost match, found {}", f.found.len()))
  }
}

fn path_last(p: &syn::Path) -> String {
  p.segments.last().map(|s| s.ident.to_string()).unwrap_or_default()
}

/// Does pattern `p` match the constructor `ctor`?  Returns Some(binder) where binder is the
/// identifier bound to the whole value (catch-all) or to the payload (tuple-struct).
#[derive(Debug, Clone, PartialEq)]
pub enum Bind {
  None,
  Whole(String),
  Payload(String),
}

pub fn pat_matches(p: &Pat, ctor: &str, variants: &[(String, usize)]) -> R<Option<Bind>> {
  match p {
    Pat::Wild(_) => Ok(Some(Bind::None)),
    Pat::Paren(pp) => pat_matches(&pp.pat, ctor, variants),
    Pat::Or(o) => {
      for c in &o.cases {
        if let Some(b) = pat_matches(c, ctor, variants)? {
          return Ok(Some(b));
        }
      }
      Ok(None)
    }
    Pat::Path(pp) => {
      let l = path_last(&pp.path);
      if !variants.iter().any(|(v, _)| *v == l) {
        return Err(format!("pattern names unknown constructor {l}"));
      }
      Ok((l == ctor).then_some(Bind::None))
    }
    Pat::Ident(pi) => {
      if pi.subpat.is_some() {
        return Err("@-patterns unsupported".into());
      }
      let l = pi.ident.to_string();
      if variants.iter().any(|(v, _)| *v == l) {
        Ok((l == ctor).then_some(Bind::None))
      } else {
        Ok(Some(Bind::Whole(l)))
      }
    }
    Pat::TupleStruct(ts) => {
      let l = path_last(&ts.path);
      if !variants.iter().any(|(v, _)| *v == l) {
        return Err(format!("pattern names unknown constructor {l}"));
      }
      if l != ctor {
        return Ok(None);
      }
      if ts.elems.len() != 1 {
        return Err("only unary tuple-struct patterns supported".into());
      }
      match &ts.elems[0] {
        Pat::Wild(_) => Ok(Some(Bind::None)),
        Pat::Ident(pi) => Ok(Some(Bind::Payload(pi.ident.to_string()))),
        _ => Err("unsupported payload pattern".into()),
      }
    }
    other => Err(format!("unsupported pattern {}", canon_tokens(quote::quote!(#other)))),
  }
}

/// Unwrap `{ e }`, `( e )`.
pub fn peel(e: &Expr) -> &Expr {
  match e {
    Expr::Block(b) if b.block.stmts.len() == 1 => {
      if let Stmt::Expr(inner, None) = &b.block.stmts[0] {
        peel(inner)
      } else {
        e
      }
    }
    Expr::Paren(p) => peel(&p.expr),
    _ => e,
  }
}

pub fn quote_body(e: &Expr) -> Option<TokenStream> {
  if let Expr::Block(b) = peel(e) {
    if let [Stmt::Macro(sm)] = b.block.stmts.as_slice() {
      if path_last(&sm.mac.path) == "quote" {
        return Some(sm.mac.tokens.clone());
      }
    }
  }
  if let Expr::Macro(m) = peel(e) {
    if path_last(&m.mac.path) == "quote" {
      return Some(m.mac.tokens.clone());
    }
  }
  None
}

fn lit_str(e: &Expr) -> Option<String> {
  if let Expr::Lit(l) = peel(e) {
    if let Lit::Str(s) = &l.lit {
      return Some(s.value());
    }
  }
  None
}

fn lit_int(e: &Expr) -> Option<u64> {
  if let Expr::Lit(l) = peel(e) {
    if let Lit::Int(i) = &l.lit {
      return i.base10_parse().ok();
    }
  }
  None
}

/// guard evaluation: `ident.method()` where method ∈ known unary predicates evaluated by `eval`.
fn eval_guard(g: &Expr, ctor: &str, preds: &BTreeMap<String, BTreeMap<String, bool>>) -> R<bool> {
  if let Expr::MethodCall(mc) = peel(g) {
    let m = mc.method.to_string();
    if mc.args.is_empty() {
      if let Some(tbl) = preds.get(&m) {
        return tbl.get(ctor).copied().ok_or_else(|| format!("guard {m} undefined on {ctor}"));
      }
    }
  }
  Err(format!("unsupported guard {}", canon_tokens(quote::quote!(#g))))
}

pub fn arm_for<'a>(
  m: &'a ExprMatch,
  ctor: &str,
  variants: &[(String, usize)],
  preds: &BTreeMap<String, BTreeMap<String, bool>>,
) -> R<(&'a Arm, Bind)> {
  for arm in &m.arms {
    if let Some(b) = pat_matches(&arm.pat, ctor, variants)? {
      if let Some((_, g)) = &arm.guard {
        if !eval_guard(g, ctor, preds)? {
          continue;
        }
      }
      return Ok((arm, b));
    }
  }
  Err(format!("no arm matches {ctor}"))
}

// ---------------------------------------------------------------------------------------------
// StatusCodeToken
// ---------------------------------------------------------------------------------------------

const FROM_U16_OR_ISE: &str = "http::StatusCode::from_u16(#code).unwrap_or(http::StatusCode::INTERNAL_SERVER_ERROR)";

pub struct StatusGen {
  pub coq: String,
  pub n_ctors: usize,
}

fn ctor_pat(c: &str, arity: usize) -> String {
  if arity == 0 {
    c.to_string()
  } else {
    format!("{c} n")
  }
}

pub fn gen_status(repo: &Path) -> R<StatusGen> {
  let sc = parse_file(&repo.join("crates/oas3-gen/src/generator/ast/status_codes.rs"))?;
  let http = parse_file(&repo.join("crates/oas3-gen/src/generator/codegen/http.rs"))?;
  let structs = parse_file(&repo.join("crates/oas3-gen/src/generator/codegen/structs.rs"))?;
  let variants = find_enum(&sc, "StatusCodeToken")?;
  for (v, a) in &variants {
    if *a > 1 || (*a == 1 && v != "Unknown") {
      return Err(format!("unexpected payload constructor {v}"));
    }
  }
  let nopreds = BTreeMap::new();
  let mut out = String::new();
  writeln!(out, "(* GENERATED by tools/vtool translate from the current /repo sources — do not edit. *)").unwrap();
  writeln!(out, "From Coq Require Import String List NArith.\nImport ListNotations.\nOpen Scope string_scope.\n").unwrap();
  writeln!(out, "Inductive tok : Type :=").unwrap();
  for (v, a) in &variants {
    if *a == 0 {
      writeln!(out, "| {v}").unwrap();
    } else {
      writeln!(out, "| {v} (n : N)").unwrap();
    }
  }
  writeln!(out, ".\n").unwrap();
  writeln!(
    out,
    "Definition tok_units : list tok :=\n  [{}].\n",
    variants.iter().filter(|(_, a)| *a == 0).map(|(v, _)| v.clone()).collect::<Vec<_>>().join("; ")
  )
  .unwrap();

  // code()
  let f = find_fn(&sc, "StatusCodeToken", None, "code")?;
  let m = sole_match(&f.block)?;
  let mut code_tbl: BTreeMap<String, Option<u64>> = BTreeMap::new();
  writeln!(out, "Definition tok_code (t : tok) : option N :=\n  match t with").unwrap();
  for (v, a) in &variants {
    let (arm, b) = arm_for(m, v, &variants, &nopreds)?;
    let body = peel(&arm.body);
    let rhs = match body {
      Expr::Path(p) if path_last(&p.path) == "None" => {
        code_tbl.insert(v.clone(), None);
        "None".to_string()
      }
      Expr::Call(c) if matches!(&*c.func, Expr::Path(p) if path_last(&p.path)=="Some") && c.args.len() == 1 => {
        if let Some(n) = lit_int(&c.args[0]) {
          code_tbl.insert(v.clone(), Some(n));
          format!("Some {n}%N")
        } else if let (Expr::Path(p), Bind::Payload(x)) = (peel(&c.args[0]), &b) {
          if path_last(&p.path) == *x {
            "Some n".to_string()
          } else {
            return Err(format!("code(): unsupported Some payload in arm for {v}"));
          }
        } else {
          return Err(format!("code(): unsupported Some payload in arm for {v}"));
        }
      }
      _ => return Err(format!("code(): unsupported rhs for {v}")),
    };
    writeln!(out, "  | {} => {rhs}", ctor_pat(v, *a)).unwrap();
  }
  writeln!(out, "  end.\n").unwrap();

  // matches!-style predicates
  let mut preds: BTreeMap<String, BTreeMap<String, bool>> = BTreeMap::new();
  for pname in ["is_default", "is_success"] {
    let f = find_fn(&sc, "StatusCodeToken", None, pname)?;
    let mac = match f.block.stmts.as_slice() {
      [Stmt::Expr(Expr::Macro(m), None)] if path_last(&m.mac.path) == "matches" => &m.mac,
      _ => return Err(format!("{pname}: body is not a single matches!")),
    };
    // parse "self, PAT"
    let parsed: MatchesArgs = syn::parse2(mac.tokens.clone()).map_err(|e| format!("{pname}: {e}"))?;
    let mut tbl = BTreeMap::new();
    writeln!(out, "Definition tok_{pname} (t : tok) : bool :=\n  match t with").unwrap();
    for (v, a) in &variants {
      let r = pat_matches(&parsed.pat, v, &variants)?.is_some();
      tbl.insert(v.clone(), r);
      writeln!(out, "  | {} => {}", ctor_pat(v, *a).replace(" n", " _"), r).unwrap();
    }
    writeln!(out, "  end.\n").unwrap();
    preds.insert(pname.to_string(), tbl);
  }

  // variant_name(), as_str()
  for fname in ["variant_name", "as_str"] {
    let f = find_fn(&sc, "StatusCodeToken", None, fname)?;
    let m = sole_match(&f.block)?;
    writeln!(out, "Definition tok_{fname} (t : tok) : string :=\n  match t with").unwrap();
    for (v, a) in &variants {
      let (arm, _) = arm_for(m, v, &variants, &nopreds)?;
      let s = lit_str(&arm.body).ok_or_else(|| format!("{fname}: non-literal rhs for {v}"))?;
      writeln!(out, "  | {} => {}", ctor_pat(v, *a).replace(" n", " _"), coq_str(&s)).unwrap();
    }
    writeln!(out, "  end.\n").unwrap();
  }

  // to_variant_token: Unknown(code) => format!("Status{code}"), _ => variant_name
  {
    let f = find_fn(&sc, "StatusCodeToken", None, "to_variant_token")?;
    let m = sole_match(&f.block)?;
    let txt: Vec<String> = m.arms.iter().map(|a| canon_tokens(quote::quote!(#a))).collect();
    let want = [
      "Self::Unknown(code)=>EnumVariantToken::new(format!(\"Status{code}\")),",
      "_=>EnumVariantToken::new(self.variant_name()),",
    ];
    if txt != want {
      return Err(format!("to_variant_token: unexpected shape {txt:?}"));
    }
    writeln!(out, "(* to_variant_token: Unknown n => \"Status\" ++ decimal n ; _ => variant_name — shape checked by the translator *)").unwrap();
    writeln!(out, "Definition tok_variant_unknown_prefix : string := \"Status\".\n").unwrap();
  }

  // FromStr
  {
    let f = find_fn(&sc, "StatusCodeToken", Some("FromStr"), "from_str")?;
    let m = sole_match(&f.block)?;
    let scrut = canon_tokens({
      let e = &m.expr;
      quote::quote!(#e)
    });
    writeln!(out, "Definition tok_from_str_scrutinee : string := {}.", coq_str(&scrut)).unwrap();
    writeln!(out, "Definition tok_from_str_table : list (string * tok) :=\n  [").unwrap();
    let mut rows = vec![];
    let mut fallback = None;
    for arm in &m.arms {
      match &arm.pat {
        Pat::Lit(l) => {
          let Lit::Str(s) = &l.lit else { return Err("from_str: non-string literal pattern".into()) };
          let Expr::Path(p) = peel(&arm.body) else { return Err("from_str: rhs not a path".into()) };
          let c = path_last(&p.path);
          if !variants.iter().any(|(v, a)| *v == c && *a == 0) {
            return Err(format!("from_str: rhs {c} is not a unit constructor"));
          }
          if fallback.is_some() {
            return Err("from_str: literal arm after catch-all".into());
          }
          rows.push(format!("   ({}, {c})", coq_str(&s.value())));
        }
        Pat::Ident(pi) if arm.guard.is_none() => {
          let body = &arm.body;
          fallback = Some((pi.ident.to_string(), canon_tokens(quote::quote!(#body))));
        }
        _ => return Err("from_str: unsupported arm".into()),
      }
    }
    writeln!(out, "{}\n  ].", rows.join(";\n")).unwrap();
    let (b, fb) = fallback.ok_or("from_str: no catch-all arm")?;
    writeln!(out, "Definition tok_from_str_fallback : string := {}.\n", coq_str(&format!("{b}=>{fb}"))).unwrap();
  }

  // HttpStatusCode::to_tokens
  writeln!(out, "Inductive hstatus : Type := HConst (name : string) | HFromU16OrISE (n : N).\n").unwrap();
  let http_rhs = |v: &str| -> R<String> {
    let f = find_fn(&http, "HttpStatusCode", Some("ToTokens"), "to_tokens")?;
    let m = sole_match(&f.block)?;
    let sc = canon_tokens({
      let e = &m.expr;
      quote::quote!(#e)
    });
    if sc != "self.0" {
      return Err(format!("HttpStatusCode::to_tokens: scrutinee {sc}"));
    }
    let (arm, b) = arm_for(m, v, &variants, &nopreds)?;
    if let Some(q) = quote_body(&arm.body) {
      let t = canon_tokens(q);
      let name = t.strip_prefix("http::StatusCode::").ok_or_else(|| format!("http status rhs {t}"))?;
      if !name.chars().all(|c| c.is_ascii_uppercase() || c == '_') {
        return Err(format!("http status rhs {t}"));
      }
      return Ok(format!("HConst {}", coq_str(name)));
    }
    // catch-all arm: if let Some(code) = other.code() { quote!{from_u16(#code)...} } else { quote!{ISE} }
    let Bind::Whole(w) = b else { return Err(format!("http status: unsupported arm for {v}")) };
    let Expr::If(ife) = peel(&arm.body) else { return Err(format!("http status: unsupported catch-all for {v}")) };
    let cond = canon_tokens({
      let c = &ife.cond;
      quote::quote!(#c)
    });
    if cond != format!("let Some(code)={w}.code()") {
      return Err(format!("http status: unsupported catch-all condition {cond}"));
    }
    let then_q = match ife.then_branch.stmts.as_slice() {
      [Stmt::Expr(e, None)] => quote_body(e),
      [Stmt::Macro(sm)] if path_last(&sm.mac.path) == "quote" => Some(sm.mac.tokens.clone()),
      _ => None,
    }
    .map(canon_tokens);
    let else_q = ife.else_branch.as_ref().and_then(|(_, e)| quote_body(e)).map(canon_tokens);
    if then_q.as_deref() != Some(FROM_U16_OR_ISE) || else_q.as_deref() != Some("http::StatusCode::INTERNAL_SERVER_ERROR") {
      return Err(format!("http status: unsupported catch-all bodies {then_q:?} {else_q:?}"));
    }
    if v == "Unknown" {
      Ok("HFromU16OrISE n".into())
    } else {
      match code_tbl.get(v) {
        Some(Some(c)) => Ok(format!("HFromU16OrISE {c}%N")),
        Some(None) => Ok("HConst \"INTERNAL_SERVER_ERROR\"".into()),
        None => Err(format!("http status: no code entry for {v}")),
      }
    }
  };
  writeln!(out, "Definition tok_http_status (t : tok) : hstatus :=\n  match t with").unwrap();
  for (v, a) in &variants {
    writeln!(out, "  | {} => {}", ctor_pat(v, *a), http_rhs(v)?).unwrap();
  }
  writeln!(out, "  end.\n").unwrap();

  // StatusConditionFragment::to_tokens
  writeln!(out, "Inductive scond : Type := SCTrue | SCFalse | SCMethod (m : string) | SCEqHttp (h : hstatus).\n").unwrap();
  {
    let f = find_fn(&structs, "StatusConditionFragment", Some("ToTokens"), "to_tokens")?;
    let m = sole_match(&f.block)?;
    let sc = canon_tokens({
      let e = &m.expr;
      quote::quote!(#e)
    });
    if sc != "self.status_code" {
      return Err(format!("StatusConditionFragment: scrutinee {sc}"));
    }
    writeln!(out, "Definition tok_condition (t : tok) : scond :=\n  match t with").unwrap();
    for (v, a) in &variants {
      let (arm, b) = arm_for(m, v, &variants, &preds)?;
      let rhs = if let Some(q) = quote_body(&arm.body) {
        let t = canon_tokens(q);
        if t == "true" {
          "SCTrue".to_string()
        } else if t == "false" {
          "SCFalse".to_string()
        } else if let Some(mm) = t.strip_prefix("status.").and_then(|x| x.strip_suffix("()")) {
          format!("SCMethod {}", coq_str(mm))
        } else {
          return Err(format!("status condition: unsupported tokens {t}"));
        }
      } else {
        let Bind::Whole(w) = b else { return Err(format!("status condition: unsupported arm for {v}")) };
        let body = &arm.body;
        let t = canon_tokens(quote::quote!(#body));
        let want = format!("{{let code=HttpStatusCode::new({w});quote!{{status==#code}}}}");
        if t != want {
          return Err(format!("status condition: unsupported catch-all {t}"));
        }
        format!("SCEqHttp (tok_http_status {})", if *a == 0 { v.clone() } else { format!("({v} n)") })
      };
      writeln!(out, "  | {} => {rhs}", ctor_pat(v, *a)).unwrap();
    }
    writeln!(out, "  end.\n").unwrap();
  }

  Ok(StatusGen { coq: out, n_ctors: variants.len() })
}

struct MatchesArgs {
  pat: Pat,
}
impl syn::parse::Parse for MatchesArgs {
  fn parse(input: syn::parse::ParseStream) -> syn::Result<Self> {
    let _e: Expr = input.parse()?;
    let _c: syn::Token![,] = input.parse()?;
    let pat = Pat::parse_multi_with_leading_vert(input)?;
    Ok(Self { pat })
  }
}

// ---------------------------------------------------------------------------------------------
// ContentCategory
// ---------------------------------------------------------------------------------------------

fn bool_expr_to_coq(e: &Expr, var: &str) -> R<String> {
  match peel(e) {
    Expr::Binary(b) => {
      let l = bool_expr_to_coq(&b.left, var)?;
      let r = bool_expr_to_coq(&b.right, var)?;
      match b.op {
        syn::BinOp::And(_) => Ok(format!("(CAnd {l} {r})")),
        syn::BinOp::Or(_) => Ok(format!("(COr {l} {r})")),
        _ => Err("unsupported binary operator in content check".into()),
      }
    }
    Expr::Unary(u) if matches!(u.op, syn::UnOp::Not(_)) => Ok(format!("(CNot {})", bool_expr_to_coq(&u.expr, var)?)),
    Expr::MethodCall(mc) => {
      let recv = &mc.receiver;
      if canon_tokens(quote::quote!(#recv)) != var || mc.args.len() != 1 {
        return Err("unsupported method call in content check".into());
      }
      let s = lit_str(&mc.args[0]).ok_or("content check: non-literal argument")?;
      match mc.method.to_string().as_str() {
        "contains" => Ok(format!("(CContains {})", coq_str(&s))),
        "starts_with" => Ok(format!("(CStarts {})", coq_str(&s))),
        "ends_with" => Ok(format!("(CEnds {})", coq_str(&s))),
        m => Err(format!("content check: unsupported method {m}")),
      }
    }
    other => Err(format!("content check: unsupported expr {}", canon_tokens(quote::quote!(#other)))),
  }
}

pub fn gen_content(repo: &Path) -> R<String> {
  let ast = parse_file(&repo.join("crates/oas3-gen/src/generator/ast/mod.rs"))?;
  let structs = parse_file(&repo.join("crates/oas3-gen/src/generator/codegen/structs.rs"))?;
  let variants = find_enum(&ast, "ContentCategory")?;
  if variants.iter().any(|(_, a)| *a != 0) {
    return Err("ContentCategory has payload constructors".into());
  }
  let nopreds = BTreeMap::new();
  let mut out = String::new();
  writeln!(out, "(* GENERATED by tools/vtool translate from the current /repo sources — do not edit. *)").unwrap();
  writeln!(out, "From Coq Require Import String List Bool.\nImport ListNotations.\nOpen Scope string_scope.\n").unwrap();
  writeln!(out, "Inductive category : Type :=\n{}.\n", variants.iter().map(|(v, _)| format!("| Cat{v}")).collect::<Vec<_>>().join("\n")).unwrap();
  writeln!(
    out,
    "Definition all_categories : list category := [{}].\n",
    variants.iter().map(|(v, _)| format!("Cat{v}")).collect::<Vec<_>>().join("; ")
  )
  .unwrap();
  // default
  {
    let mut def = None;
    for it in &ast.items {
      if let Item::Enum(e) = it {
        if e.ident == "ContentCategory" {
          for v in &e.variants {
            if v.attrs.iter().any(|a| a.path().is_ident("default")) {
              def = Some(v.ident.to_string());
            }
          }
        }
      }
    }
    writeln!(out, "Definition category_default : category := Cat{}.\n", def.ok_or("ContentCategory: no #[default]")?).unwrap();
  }
  // variant_suffix
  {
    let f = find_fn(&ast, "ContentCategory", None, "variant_suffix")?;
    let m = sole_match(&f.block)?;
    writeln!(out, "Definition category_suffix (c : category) : string :=\n  match c with").unwrap();
    for (v, _) in &variants {
      let (arm, _) = arm_for(m, v, &variants, &nopreds)?;
      let s = lit_str(&arm.body).ok_or("variant_suffix: non-literal")?;
      writeln!(out, "  | Cat{v} => {}", coq_str(&s)).unwrap();
    }
    writeln!(out, "  end.\n").unwrap();
  }
  // from_content_type: parse-failure default + the tuple match
  {
    let f = find_fn(&ast, "ContentCategory", None, "from_content_type")?;
    // first stmt: let Some(media) = MediaType::parse(content_type).ok() else { return Self::X; };
    let first = f.block.stmts.first().ok_or("from_content_type: empty")?;
    let t = canon_tokens(quote::quote!(#first));
    let pre = "let Some(media)=MediaType::parse(content_type).ok()else{return Self::";
    let fail = t.strip_prefix(pre).and_then(|r| r.strip_suffix(";};")).ok_or_else(|| format!("from_content_type: unexpected first statement {t}"))?;
    writeln!(out, "Definition category_on_parse_failure : category := Cat{fail}.\n").unwrap();
    let second = f.block.stmts.get(1).ok_or("from_content_type: no suffix binding")?;
    let t2 = canon_tokens(quote::quote!(#second));
    if t2 != "let suffix=media.suffix.as_ref().map(mediatype::Name::as_str);" {
      return Err(format!("from_content_type: unexpected suffix binding {t2}"));
    }
    let m = sole_match(&f.block)?;
    let sc = canon_tokens({
      let e = &m.expr;
      quote::quote!(#e)
    });
    if sc != "(media.ty.as_str(),media.subty.as_str(),suffix)" {
      return Err(format!("from_content_type: scrutinee {sc}"));
    }
    fn elem(p: &Pat, var: &str, opt: bool) -> R<String> {
      match p {
        Pat::Wild(_) => Ok("true".into()),
        Pat::Lit(l) => {
          if opt {
            return Err("literal in option position".into());
          }
          let Lit::Str(s) = &l.lit else { return Err("non-string literal".into()) };
          Ok(format!("(String.eqb {var} {})", coq_str(&s.value())))
        }
        Pat::Or(o) => {
          let parts: R<Vec<String>> = o.cases.iter().map(|c| elem(c, var, opt)).collect();
          Ok(format!("({})", parts?.join(" || ")))
        }
        Pat::Paren(pp) => elem(&pp.pat, var, opt),
        Pat::TupleStruct(ts) if opt && path_last(&ts.path) == "Some" && ts.elems.len() == 1 => {
          let Pat::Lit(l) = &ts.elems[0] else { return Err("Some(non-literal)".into()) };
          let Lit::Str(s) = &l.lit else { return Err("non-string literal".into()) };
          Ok(format!("(opt_str_eqb {var} {})", coq_str(&s.value())))
        }
        Pat::Ident(pi) if opt && pi.ident == "None" => Ok(format!("(opt_str_none {var})")),
        other => Err(format!("unsupported tuple element {}", canon_tokens(quote::quote!(#other)))),
      }
    }
    fn tuple(p: &Pat) -> R<String> {
      match p {
        Pat::Or(o) => {
          let parts: R<Vec<String>> = o.cases.iter().map(tuple).collect();
          Ok(format!("({})", parts?.join(" || ")))
        }
        Pat::Tuple(t) if t.elems.len() == 3 => {
          let a = elem(&t.elems[0], "ty", false)?;
          let b = elem(&t.elems[1], "subty", false)?;
          let c = elem(&t.elems[2], "suffix", true)?;
          Ok(format!("({a} && {b} && {c})"))
        }
        Pat::Wild(_) => Ok("true".into()),
        other => Err(format!("unsupported arm pattern {}", canon_tokens(quote::quote!(#other)))),
      }
    }
    writeln!(out, "Definition opt_str_eqb (o : option string) (s : string) : bool :=\n  match o with Some x => String.eqb x s | None => false end.").unwrap();
    writeln!(out, "Definition opt_str_none (o : option string) : bool :=\n  match o with Some _ => false | None => true end.\n").unwrap();
    writeln!(out, "Definition category_of_parts (ty subty : string) (suffix : option string) : category :=").unwrap();
    let mut closed = false;
    for arm in &m.arms {
      if arm.guard.is_some() {
        return Err("from_content_type: guards unsupported".into());
      }
      let Expr::Path(p) = peel(&arm.body) else { return Err("from_content_type: rhs not a path".into()) };
      let c = path_last(&p.path);
      if !variants.iter().any(|(v, _)| *v == c) {
        return Err(format!("from_content_type: unknown rhs {c}"));
      }
      let cond = tuple(&arm.pat)?;
      if cond == "true" {
        writeln!(out, "  Cat{c}.").unwrap();
        closed = true;
        break;
      }
      writeln!(out, "  if {cond} then Cat{c} else").unwrap();
    }
    if !closed {
      return Err("from_content_type: no final wildcard arm".into());
    }
    writeln!(out).unwrap();
  }
  // ContentCheckFragment
  {
    writeln!(out, "Inductive cexpr : Type :=\n| CContains (s : string) | CStarts (s : string) | CEnds (s : string)\n| CAnd (a b : cexpr) | COr (a b : cexpr) | CNot (a : cexpr).\n").unwrap();
    let f = find_fn(&structs, "ContentCheckFragment", Some("ToTokens"), "to_tokens")?;
    let m = sole_match(&f.block)?;
    let sc = canon_tokens({
      let e = &m.expr;
      quote::quote!(#e)
    });
    if sc != "self.category" {
      return Err(format!("ContentCheckFragment: scrutinee {sc}"));
    }
    writeln!(out, "Definition category_check (c : category) : cexpr :=\n  match c with").unwrap();
    for (v, _) in &variants {
      let (arm, _) = arm_for(m, v, &variants, &nopreds)?;
      let q = quote_body(&arm.body).ok_or("content check: rhs is not quote!")?;
      let e: Expr = syn::parse2(q).map_err(|e| format!("content check: {e}"))?;
      writeln!(out, "  | Cat{v} => {}", bool_expr_to_coq(&e, "content_type_str")?).unwrap();
    }
    writeln!(out, "  end.\n").unwrap();
    // the event-stream pre-check and the header default in ContentDispatchFragment
    let f = find_fn(&structs, "ContentDispatchFragment", Some("ToTokens"), "to_tokens")?;
    let body = &f.block;
    let t = canon_tokens(quote::quote!(#body));
    let need = [
      ".unwrap_or(\"application/json\");",
      "if content_type_str.contains(\"event-stream\"){#block}",
      "tokens.extend(quote!{#content_type_header#(#stream_checks)*#(#other_checks)*});",
      "if#check{#block}",
    ];
    for n in need {
      if !t.contains(n) {
        return Err(format!("ContentDispatchFragment: expected fragment `{n}` not found"));
      }
    }
    writeln!(out, "Definition dispatch_default_content_type : string := \"application/json\".").unwrap();
    writeln!(out, "Definition dispatch_stream_check : cexpr := CContains \"event-stream\".").unwrap();
    writeln!(out, "(* order checked by the translator: header binding; stream checks; other checks *)\n").unwrap();
  }
  Ok(out)
}

// ---------------------------------------------------------------------------------------------
// string lists (keywords etc.)
// ---------------------------------------------------------------------------------------------

struct ArrayFinder {
  strings: Option<Vec<String>>,
}
impl<'a> Visit<'a> for ArrayFinder {
  fn visit_expr_array(&mut self, a: &'a syn::ExprArray) {
    if self.strings.is_none() {
      let v: Option<Vec<String>> = a.elems.iter().map(lit_str).collect();
      self.strings = v;
    }
  }
}

pub fn static_string_list(file: &File, name: &str) -> R<Vec<String>> {
  for it in &file.items {
    match it {
      Item::Static(s) if s.ident == name => {
        let mut f = ArrayFinder { strings: None };
        f.visit_expr(&s.expr);
        return f.strings.ok_or_else(|| format!("static {name}: no string array"));
      }
      Item::Const(s) if s.ident == name => {
        let mut f = ArrayFinder { strings: None };
        f.visit_expr(&s.expr);
        return f.strings.ok_or_else(|| format!("const {name}: no string array"));
      }
      _ => {}
    }
  }
  Err(format!("static/const {name} not found"))
}

pub fn gen_keywords(repo: &Path) -> R<String> {
  let ids = parse_file(&repo.join("crates/oas3-gen/src/generator/naming/identifiers.rs"))?;
  let mut out = String::new();
  writeln!(out, "(* GENERATED by tools/vtool translate from the current /repo sources — do not edit. *)").unwrap();
  writeln!(out, "From Coq Require Import String List.\nImport ListNotations.\nOpen Scope string_scope.\n").unwrap();
  for (name, coq) in [("FORBIDDEN_IDENTIFIERS", "forbidden_identifiers"), ("PRELUDE_TYPE_NAMES", "prelude_type_names")] {
    let l = static_string_list(&ids, name)?;
    writeln!(out, "Definition {coq} : list string :=\n  [{}].\n", l.iter().map(|s| coq_str(s)).collect::<Vec<_>>().join("; ")).unwrap();
  }
  Ok(out)
}

pub fn run(repo: &Path, outdir: &Path) -> R<serde_json::Value> {
  fs::create_dir_all(outdir).map_err(|e| e.to_string())?;
  let mut report = serde_json::Map::new();
  let mut put = |name: &str, r: R<String>| match r {
    Ok(s) => {
      let p = outdir.join(name);
      let old = fs::read_to_string(&p).ok();
      if old.as_deref() != Some(&s) {
        fs::write(&p, &s).unwrap();
      }
      report.insert(name.to_string(), serde_json::json!({"ok": true, "lines": s.lines().count()}));
    }
    Err(e) => {
      // leave a file that cannot compile, so no stale model is used
      let p = outdir.join(name);
      let _ = fs::write(&p, format!("(* TRANSLATION FAILED: {} *)\nTranslation_failed.\n", e.replace("*)", "* )")));
      report.insert(name.to_string(), serde_json::json!({"ok": false, "error": e}));
    }
  };
  put("StatusTable.v", gen_status(repo).map(|g| g.coq));
  put("Content.v", gen_content(repo));
  put("Keywords.v", gen_keywords(repo));
  for (name, r) in crate::translate2::all(repo) {
    put(&name, r);
  }
  Ok(serde_json::Value::Object(report))
}
