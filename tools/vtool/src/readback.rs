//! `syn` read-back of files emitted by the real generator: canonical observations.

use std::{fs, io::BufRead};

use serde_json::{json, Value};
use syn::{visit::Visit, Expr, ImplItem, Item, Stmt};

use crate::translate::canon_tokens;

fn toks<T: quote::ToTokens>(t: &T) -> String {
  canon_tokens(quote::quote!(#t))
}

fn files_from_args(args: &[String]) -> Vec<String> {
  if args.len() == 1 && args[0] == "-" {
    std::io::stdin().lock().lines().map_while(Result::ok).filter(|l| !l.is_empty()).collect()
  } else {
    args.to_vec()
  }
}

// ------------------------------------------------------------------------------------------
// parse_response
// ------------------------------------------------------------------------------------------

fn cexpr(e: &Expr) -> Result<String, String> {
  match e {
    Expr::Paren(p) => cexpr(&p.expr),
    Expr::Binary(b) if matches!(b.op, syn::BinOp::Eq(_)) && toks(&b.left) == "content_type_str" => {
      // a shape the generator does not emit today; read it so that a changed check can still be evaluated
      let Expr::Lit(syn::ExprLit { lit: syn::Lit::Str(s), .. }) = &*b.right else {
        return Err(format!("rhs in {}", toks(e)));
      };
      Ok(format!("(CEq \"{}\")", s.value()))
    }
    Expr::Binary(b) => {
      let l = cexpr(&b.left)?;
      let r = cexpr(&b.right)?;
      match b.op {
        syn::BinOp::And(_) => Ok(format!("(CAnd {l} {r})")),
        syn::BinOp::Or(_) => Ok(format!("(COr {l} {r})")),
        _ => Err(format!("op in {}", toks(e))),
      }
    }
    Expr::Unary(u) if matches!(u.op, syn::UnOp::Not(_)) => Ok(format!("(CNot {})", cexpr(&u.expr)?)),
    Expr::MethodCall(mc) if toks(&mc.receiver) == "content_type_str" && mc.args.len() == 1 => {
      let Expr::Lit(syn::ExprLit { lit: syn::Lit::Str(s), .. }) = &mc.args[0] else {
        return Err(format!("arg in {}", toks(e)));
      };
      let k = match mc.method.to_string().as_str() {
        "contains" => "CContains",
        "starts_with" => "CStarts",
        "ends_with" => "CEnds",
        _ => return Err(format!("method in {}", toks(e))),
      };
      Ok(format!("({k} \"{}\")", s.value()))
    }
    _ => Err(format!("unsupported check {}", toks(e))),
  }
}

fn status_cond(e: &Expr) -> String {
  let t = toks(e);
  if t == "true" || t == "false" {
    return t;
  }
  if let Some(m) = t.strip_prefix("status.").and_then(|x| x.strip_suffix("()")) {
    return format!("method:{m}");
  }
  if let Some(r) = t.strip_prefix("status==http::StatusCode::") {
    if let Some(x) = r.strip_prefix("from_u16(").and_then(|x| x.strip_suffix(").unwrap_or(http::StatusCode::INTERNAL_SERVER_ERROR)")) {
      return format!("eq_u16:{}", x.trim_end_matches("u16"));
    }
    return format!("eq:{r}");
  }
  format!("other:{t}")
}

fn extraction(e: &Expr) -> String {
  let t = toks(e);
  if let Some(r) = t.strip_prefix("oas3_gen_support::Diagnostics::<") {
    if let Some(ty) = r.strip_suffix(">::json_with_diagnostics(req).await?") {
      return format!("json:{ty}");
    }
    if let Some(ty) = r.strip_suffix(">::xml_with_diagnostics(req).await?") {
      return format!("xml:{ty}");
    }
  }
  if t == "req.text().await?" {
    return "text".into();
  }
  if t == "req.bytes().await?.to_vec()" {
    return "bytes".into();
  }
  if let Some(ty) = t.strip_prefix("req.text().await?.parse::<").and_then(|x| x.strip_suffix(">()?")) {
    return format!("text_parse:{ty}");
  }
  if let Some(ty) = t.strip_prefix("<").and_then(|x| x.strip_suffix(">::from_response(req)")) {
    return format!("stream:{ty}");
  }
  format!("other:{t}")
}

/// A case: `let data = EXTR; return Ok(E::V(data));` | `let _ = req.bytes().await?; return Ok(E::V);`
/// (fallback form may end with `Ok(E::V)` without `return`).
fn read_case(stmts: &[Stmt]) -> Result<Value, String> {
  if stmts.len() != 2 {
    return Err(format!("case with {} statements", stmts.len()));
  }
  let Stmt::Local(l) = &stmts[0] else { return Err("case: first statement is not let".into()) };
  let pat = toks(&l.pat);
  let init = l.init.as_ref().ok_or("case: let without init")?;
  let ret = match &stmts[1] {
    Stmt::Expr(Expr::Return(r), _) => r.expr.as_ref().map(|e| toks(&**e)).unwrap_or_default(),
    Stmt::Expr(e, None) => toks(e),
    _ => return Err("case: second statement".into()),
  };
  let inner = ret.strip_prefix("Ok(").and_then(|x| x.strip_suffix(")")).ok_or_else(|| format!("case: return {ret}"))?;
  let (en, rest) = inner.split_once("::").ok_or_else(|| format!("case: return {ret}"))?;
  if pat == "data" {
    let v = rest.strip_suffix("(data)").ok_or_else(|| format!("case: return {ret}"))?;
    Ok(json!({"enum": en, "variant": v, "payload": extraction(&init.expr)}))
  } else if pat == "_" {
    if toks(&init.expr) != "req.bytes().await?" {
      return Err(format!("case: discard of {}", toks(&init.expr)));
    }
    Ok(json!({"enum": en, "variant": rest, "payload": Value::Null}))
  } else {
    Err(format!("case: let pattern {pat}"))
  }
}

fn read_handler_body(stmts: &[Stmt]) -> Result<Value, String> {
  if let Some(Stmt::Local(l)) = stmts.first() {
    if toks(&l.pat) == "content_type_str" {
      let init = toks(&l.init.as_ref().ok_or("ct: no init")?.expr);
      let want = "req.headers().get(reqwest::header::CONTENT_TYPE).and_then(|v|v.to_str().ok()).unwrap_or(\"";
      let dflt = init.strip_prefix(want).and_then(|x| x.strip_suffix("\")")).ok_or_else(|| format!("ct header expr {init}"))?;
      let mut cases = vec![];
      for s in &stmts[1..] {
        let Stmt::Expr(Expr::If(i), _) = s else { return Err("dispatch: non-if statement".into()) };
        if i.else_branch.is_some() {
          return Err("dispatch: else branch".into());
        }
        cases.push(json!({"check": cexpr(&i.cond)?, "case": read_case(&i.then_branch.stmts)?}));
      }
      return Ok(json!({"kind": "dispatch", "default_ct": dflt, "cases": cases}));
    }
  }
  Ok(json!({"kind": "single", "case": read_case(stmts)?}))
}

fn read_parse_response(f: &syn::ImplItemFn) -> Result<Value, String> {
  let mut handlers = vec![];
  let stmts = &f.block.stmts;
  let mut i = 0;
  if let Some(Stmt::Local(l)) = stmts.first() {
    if toks(&l.pat) == "status" {
      let init = toks(&l.init.as_ref().ok_or("status: no init")?.expr);
      if init != "req.status()" {
        return Err(format!("status binding {init}"));
      }
      i = 1;
    }
  }
  while i < stmts.len() {
    if let Stmt::Expr(Expr::If(ife), _) = &stmts[i] {
      if ife.else_branch.is_some() {
        return Err("status check with else".into());
      }
      handlers.push(json!({"cond": status_cond(&ife.cond), "body": read_handler_body(&ife.then_branch.stmts)?}));
      i += 1;
    } else {
      break;
    }
  }
  let fallback = read_case(&stmts[i..])?;
  let ret = match &f.sig.output {
    syn::ReturnType::Type(_, t) => toks(&**t),
    syn::ReturnType::Default => String::new(),
  };
  Ok(json!({"ret": ret, "handlers": handlers, "fallback": fallback}))
}

pub fn parse_response_of_file(path: &str) -> Value {
  let src = match fs::read_to_string(path) {
    Ok(s) => s,
    Err(e) => return json!({"file": path, "error": format!("read: {e}")}),
  };
  let file = match syn::parse_file(&src) {
    Ok(f) => f,
    Err(e) => return json!({"file": path, "error": format!("syn: {e}")}),
  };
  let mut out = vec![];
  for it in &file.items {
    if let Item::Impl(imp) = it {
      if imp.trait_.is_some() {
        continue;
      }
      for ii in &imp.items {
        if let ImplItem::Fn(f) = ii {
          if f.sig.ident == "parse_response" {
            let name = toks(&*imp.self_ty);
            match read_parse_response(f) {
              Ok(mut v) => {
                v["impl"] = json!(name);
                out.push(v);
              }
              Err(e) => out.push(json!({"impl": name, "error": e})),
            }
          }
        }
      }
    }
  }
  // response enums: variant lists with payload types and doc lines
  let mut enums = serde_json::Map::new();
  for it in &file.items {
    if let Item::Enum(e) = it {
      let vs: Vec<Value> = e
        .variants
        .iter()
        .map(|v| {
          let doc: Vec<String> = v
            .attrs
            .iter()
            .filter(|a| a.path().is_ident("doc"))
            .filter_map(|a| match &a.meta {
              syn::Meta::NameValue(nv) => match &nv.value {
                Expr::Lit(syn::ExprLit { lit: syn::Lit::Str(s), .. }) => Some(s.value()),
                _ => None,
              },
              _ => None,
            })
            .collect();
          let payload = match &v.fields {
            syn::Fields::Unit => Value::Null,
            syn::Fields::Unnamed(u) => json!(u.unnamed.iter().map(|f| toks(&f.ty)).collect::<Vec<_>>().join(",")),
            syn::Fields::Named(_) => json!("{named}"),
          };
          json!({"name": v.ident.to_string(), "payload": payload, "doc": doc})
        })
        .collect();
      enums.insert(e.ident.to_string(), Value::Array(vs));
    }
  }
  json!({"file": path, "parse_response": out, "enums": enums})
}

pub fn cmd_parse_response(args: &[String]) -> i32 {
  for f in files_from_args(args) {
    println!("{}", parse_response_of_file(&f));
  }
  0
}

// ------------------------------------------------------------------------------------------
// generic dump: items, fields, variants, attributes, methods, mentioned type names
// ------------------------------------------------------------------------------------------

struct TypeMentions {
  names: Vec<String>,
}
impl<'a> Visit<'a> for TypeMentions {
  fn visit_type_path(&mut self, tp: &'a syn::TypePath) {
    let segs: Vec<String> = tp.path.segments.iter().map(|s| s.ident.to_string()).collect();
    self.names.push(segs.join("::"));
    syn::visit::visit_type_path(self, tp);
  }
}

fn mentions_of_type(t: &syn::Type) -> Vec<String> {
  let mut m = TypeMentions { names: vec![] };
  m.visit_type(t);
  m.names
}

fn attr_list(attrs: &[syn::Attribute]) -> Vec<Value> {
  attrs
    .iter()
    .map(|a| {
      if a.path().is_ident("doc") {
        if let syn::Meta::NameValue(nv) = &a.meta {
          if let Expr::Lit(syn::ExprLit { lit: syn::Lit::Str(s), .. }) = &nv.value {
            return json!({"doc": s.value()});
          }
        }
      }
      json!({"attr": toks(&a.meta)})
    })
    .collect()
}

fn vis_str(v: &syn::Visibility) -> String {
  match v {
    syn::Visibility::Public(_) => "pub".into(),
    syn::Visibility::Restricted(r) => format!("pub({})", toks(&*r.path)),
    syn::Visibility::Inherited => "".into(),
  }
}

fn fields_json(fields: &syn::Fields) -> Vec<Value> {
  fields
    .iter()
    .enumerate()
    .map(|(i, f)| {
      json!({
        "name": f.ident.as_ref().map(|i| i.to_string()).unwrap_or_else(|| i.to_string()),
        "vis": vis_str(&f.vis),
        "ty": toks(&f.ty),
        "mentions": mentions_of_type(&f.ty),
        "attrs": attr_list(&f.attrs),
      })
    })
    .collect()
}

struct AllTypeMentions {
  names: Vec<String>,
}
impl<'a> Visit<'a> for AllTypeMentions {
  fn visit_type_path(&mut self, tp: &'a syn::TypePath) {
    let segs: Vec<String> = tp.path.segments.iter().map(|s| s.ident.to_string()).collect();
    self.names.push(segs.join("::"));
    syn::visit::visit_type_path(self, tp);
  }
  fn visit_expr_path(&mut self, ep: &'a syn::ExprPath) {
    let segs: Vec<String> = ep.path.segments.iter().map(|s| s.ident.to_string()).collect();
    if segs.len() >= 2 {
      // `Type::assoc` — record the qualifier
      self.names.push(segs[..segs.len() - 1].join("::"));
    }
    syn::visit::visit_expr_path(self, ep);
  }
  fn visit_expr_struct(&mut self, es: &'a syn::ExprStruct) {
    let segs: Vec<String> = es.path.segments.iter().map(|s| s.ident.to_string()).collect();
    self.names.push(segs.join("::"));
    syn::visit::visit_expr_struct(self, es);
  }
}

fn item_json(it: &Item) -> Option<Value> {
  Some(match it {
    Item::Struct(s) => json!({
      "kind": "struct", "name": s.ident.to_string(), "vis": vis_str(&s.vis),
      "attrs": attr_list(&s.attrs), "fields": fields_json(&s.fields),
    }),
    Item::Enum(e) => json!({
      "kind": "enum", "name": e.ident.to_string(), "vis": vis_str(&e.vis),
      "attrs": attr_list(&e.attrs),
      "variants": e.variants.iter().map(|v| json!({
        "name": v.ident.to_string(), "attrs": attr_list(&v.attrs), "fields": fields_json(&v.fields),
      })).collect::<Vec<_>>(),
    }),
    Item::Type(t) => json!({
      "kind": "type", "name": t.ident.to_string(), "vis": vis_str(&t.vis),
      "attrs": attr_list(&t.attrs), "ty": toks(&*t.ty), "mentions": mentions_of_type(&t.ty),
    }),
    Item::Const(c) => json!({
      "kind": "const", "name": c.ident.to_string(), "vis": vis_str(&c.vis),
      "attrs": attr_list(&c.attrs), "ty": toks(&*c.ty), "value": toks(&*c.expr),
    }),
    Item::Static(c) => json!({
      "kind": "static", "name": c.ident.to_string(), "vis": vis_str(&c.vis),
      "attrs": attr_list(&c.attrs), "ty": toks(&*c.ty), "value": toks(&*c.expr),
    }),
    Item::Fn(f) => json!({
      "kind": "fn", "name": f.sig.ident.to_string(), "vis": vis_str(&f.vis),
      "attrs": attr_list(&f.attrs), "sig": toks(&f.sig), "body": toks(&*f.block),
    }),
    Item::Trait(t) => json!({
      "kind": "trait", "name": t.ident.to_string(), "vis": vis_str(&t.vis),
      "attrs": attr_list(&t.attrs),
      "methods": t.items.iter().filter_map(|ti| match ti {
        syn::TraitItem::Fn(f) => Some(json!({"name": f.sig.ident.to_string(), "sig": toks(&f.sig), "attrs": attr_list(&f.attrs),
           "default_body": f.default.as_ref().map(|b| toks(b))})),
        _ => None,
      }).collect::<Vec<_>>(),
    }),
    Item::Impl(i) => {
      let mut m = AllTypeMentions { names: vec![] };
      m.visit_item_impl(i);
      json!({
        "kind": "impl", "self_ty": toks(&*i.self_ty),
        "trait": i.trait_.as_ref().map(|(_, p, _)| toks(p)),
        "attrs": attr_list(&i.attrs),
        "mentions": m.names,
        "methods": i.items.iter().filter_map(|ii| match ii {
          ImplItem::Fn(f) => Some(json!({"name": f.sig.ident.to_string(), "vis": vis_str(&f.vis), "sig": toks(&f.sig),
             "attrs": attr_list(&f.attrs), "body": toks(&f.block)})),
          ImplItem::Const(c) => Some(json!({"name": c.ident.to_string(), "vis": vis_str(&c.vis), "const": toks(&c.expr)})),
          _ => None,
        }).collect::<Vec<_>>(),
      })
    }
    Item::Use(u) => json!({"kind": "use", "vis": vis_str(&u.vis), "tree": toks(&u.tree)}),
    Item::Mod(m) => json!({"kind": "mod", "name": m.ident.to_string(), "vis": vis_str(&m.vis), "inline": m.content.is_some()}),
    Item::Macro(m) => json!({"kind": "macro", "path": toks(&m.mac.path), "tokens": canon_tokens(m.mac.tokens.clone())}),
    _ => json!({"kind": "other", "tokens": toks(it)}),
  })
}

pub fn dump_file(path: &str) -> Value {
  let src = match fs::read_to_string(path) {
    Ok(s) => s,
    Err(e) => return json!({"file": path, "error": format!("read: {e}")}),
  };
  let file = match syn::parse_file(&src) {
    Ok(f) => f,
    Err(e) => return json!({"file": path, "error": format!("syn: {e}")}),
  };
  let items: Vec<Value> = file.items.iter().filter_map(item_json).collect();
  json!({"file": path, "inner_attrs": attr_list(&file.attrs), "items": items})
}

pub fn cmd_dump(args: &[String]) -> i32 {
  for f in files_from_args(args) {
    println!("{}", dump_file(&f));
  }
  0
}

// ------------------------------------------------------------------------------------------
// server read-back: router table, IntoResponse arms, handler error mapping
// ------------------------------------------------------------------------------------------

fn method_chain(e: &Expr, out: &mut Vec<(String, String)>) -> Result<(), String> {
  // get(h::<S>).post(h2::<S>)  ==> MethodCall{receiver: Call(get, [h]), method: post, args: [h2]}
  match e {
    Expr::MethodCall(mc) => {
      method_chain(&mc.receiver, out)?;
      if mc.args.len() != 1 {
        return Err(format!("route chain arg count in {}", toks(e)));
      }
      out.push((mc.method.to_string(), toks(&mc.args[0]).replace("::<S>", "")));
      Ok(())
    }
    Expr::Call(c) => {
      if c.args.len() != 1 {
        return Err(format!("route call arg count in {}", toks(e)));
      }
      out.push((toks(&*c.func), toks(&c.args[0]).replace("::<S>", "")));
      Ok(())
    }
    _ => Err(format!("unsupported route expr {}", toks(e))),
  }
}

fn router_routes(e: &Expr, out: &mut Vec<Value>) -> Result<(), String> {
  // Router::new().route(p, chain).route(..).with_state(service)
  if let Expr::MethodCall(mc) = e {
    router_routes(&mc.receiver, out)?;
    match mc.method.to_string().as_str() {
      "route" => {
        if mc.args.len() != 2 {
          return Err("route arg count".into());
        }
        let Expr::Lit(syn::ExprLit { lit: syn::Lit::Str(p), .. }) = &mc.args[0] else { return Err("route path not a literal".into()) };
        let mut chain = vec![];
        method_chain(&mc.args[1], &mut chain)?;
        out.push(json!({"path": p.value(), "handlers": chain.iter().map(|(f, h)| json!([f, h])).collect::<Vec<_>>()}));
        Ok(())
      }
      "with_state" => Ok(()),
      m => Err(format!("unexpected router method {m}")),
    }
  } else if toks(e) == "Router::new()" {
    Ok(())
  } else {
    Err(format!("unexpected router expr {}", toks(e)))
  }
}

pub fn server_of_dir(dir: &str) -> Value {
  let mut res = serde_json::Map::new();
  res.insert("dir".into(), json!(dir));
  let server = format!("{dir}/server.rs");
  let types = format!("{dir}/types.rs");
  match fs::read_to_string(&server).map_err(|e| e.to_string()).and_then(|s| syn::parse_file(&s).map_err(|e| e.to_string())) {
    Err(e) => {
      res.insert("error".into(), json!(format!("server.rs: {e}")));
    }
    Ok(file) => {
      let mut routes = vec![];
      let mut handlers = serde_json::Map::new();
      let mut trait_methods = vec![];
      for it in &file.items {
        match it {
          Item::Fn(f) if f.sig.ident == "router" => {
            if let Some(Stmt::Expr(e, None)) = f.block.stmts.last() {
              if let Err(e) = router_routes(e, &mut routes) {
                res.insert("router_error".into(), json!(e));
              }
            }
          }
          Item::Fn(f) => {
            let body = toks(&*f.block);
            handlers.insert(f.sig.ident.to_string(), json!({
              "err_500": body.split("Err(e)=>").nth(1).is_some_and(|r| r.trim_start_matches('{').starts_with("(axum::http::StatusCode::INTERNAL_SERVER_ERROR,")),
              "extractors": f.sig.inputs.iter().map(|a| toks(a)).collect::<Vec<_>>(),
            }));
          }
          Item::Trait(t) => {
            for ti in &t.items {
              if let syn::TraitItem::Fn(m) = ti {
                let doc: Vec<String> = m.attrs.iter().filter_map(|a| match &a.meta {
                  syn::Meta::NameValue(nv) if a.path().is_ident("doc") => match &nv.value {
                    Expr::Lit(syn::ExprLit { lit: syn::Lit::Str(s), .. }) => Some(s.value()),
                    _ => None,
                  },
                  _ => None,
                }).collect();
                trait_methods.push(json!({"name": m.sig.ident.to_string(), "doc": doc}));
              }
            }
          }
          _ => {}
        }
      }
      res.insert("routes".into(), json!(routes));
      res.insert("handlers".into(), Value::Object(handlers));
      res.insert("trait_methods".into(), json!(trait_methods));
    }
  }
  match fs::read_to_string(&types).map_err(|e| e.to_string()).and_then(|s| syn::parse_file(&s).map_err(|e| e.to_string())) {
    Err(e) => {
      res.insert("types_error".into(), json!(e));
    }
    Ok(file) => {
      let mut into = serde_json::Map::new();
      let mut enums = serde_json::Map::new();
      for it in &file.items {
        if let Item::Impl(imp) = it {
          let tr = imp.trait_.as_ref().map(|(_, p, _)| toks(p));
          if tr.as_deref() == Some("IntoResponse") {
            let mut arms = vec![];
            for ii in &imp.items {
              if let ImplItem::Fn(f) = ii {
                if let Some(Stmt::Expr(Expr::Match(m), _)) = f.block.stmts.last() {
                  for arm in &m.arms {
                    let pat = toks(&arm.pat);
                    let mut body = toks(&*arm.body);
                    if body.starts_with('{') && body.ends_with('}') {
                      body = body[1..body.len() - 1].to_string();
                    }
                    let variant = pat.trim_start_matches("Self::").split('(').next().unwrap_or("").to_string();
                    let (status, enc) = if let Some(r) = body.strip_prefix("(").and_then(|b| b.strip_suffix(").into_response()")) {
                      let r = r.trim_end_matches(',');
                      match r.rsplit_once(",") {
                        Some((st, payload)) => (st.to_string(), payload.split('(').next().unwrap_or("").to_string()),
                        None => (r.to_string(), String::new()),
                      }
                    } else {
                      (body.trim_end_matches(".into_response()").to_string(), String::new())
                    };
                    arms.push(json!({"variant": variant, "status": status, "encoder": enc}));
                  }
                }
              }
            }
            into.insert(toks(&*imp.self_ty), json!(arms));
          }
        }
        if let Item::Enum(e) = it {
          let vs: Vec<Value> = e.variants.iter().map(|v| {
            let doc: Vec<String> = v.attrs.iter().filter_map(|a| match &a.meta {
              syn::Meta::NameValue(nv) if a.path().is_ident("doc") => match &nv.value {
                Expr::Lit(syn::ExprLit { lit: syn::Lit::Str(s), .. }) => Some(s.value()),
                _ => None,
              },
              _ => None,
            }).collect();
            json!({"name": v.ident.to_string(), "doc": doc, "payload": match &v.fields { syn::Fields::Unit => Value::Null, f => json!(f.iter().map(|x| toks(&x.ty)).collect::<Vec<_>>().join(",")) }})
          }).collect();
          enums.insert(e.ident.to_string(), json!(vs));
        }
      }
      res.insert("into_response".into(), Value::Object(into));
      res.insert("enums".into(), Value::Object(enums));
    }
  }
  Value::Object(res)
}

pub fn cmd_server(args: &[String]) -> i32 {
  for d in files_from_args(args) {
    println!("{}", server_of_dir(&d));
  }
  0
}

// ------------------------------------------------------------------------------------------
// skeleton: token structure with string literals erased (and optionally identifiers), doc attributes
// removed; plus the list of string literal values and doc lines (for recoverability checks)
// ------------------------------------------------------------------------------------------

fn skel(ts: proc_macro2::TokenStream, erase_ident: bool, out: &mut String, lits: &mut Vec<String>) {
  use proc_macro2::TokenTree;
  let toks: Vec<TokenTree> = ts.into_iter().collect();
  let mut i = 0;
  while i < toks.len() {
    // drop `# [doc = "..."]` and `# ! [doc = "..."]`
    if let TokenTree::Punct(p) = &toks[i] {
      if p.as_char() == '#' {
        let mut j = i + 1;
        if let Some(TokenTree::Punct(b)) = toks.get(j) {
          if b.as_char() == '!' {
            j += 1;
          }
        }
        if let Some(TokenTree::Group(g)) = toks.get(j) {
          if g.delimiter() == proc_macro2::Delimiter::Bracket {
            let inner: Vec<TokenTree> = g.stream().into_iter().collect();
            if let Some(TokenTree::Ident(id)) = inner.first() {
              if id == "doc" {
                if let Some(TokenTree::Literal(l)) = inner.get(2) {
                  if let Ok(syn::Lit::Str(s)) = syn::parse_str::<syn::Lit>(&l.to_string()) {
                    lits.push(format!("doc:{}", s.value()));
                  }
                }
                i = j + 1;
                continue;
              }
            }
          }
        }
      }
    }
    // layout-only choices of the pretty-printer (they follow line width, hence literal length):
    // a comma before a closing delimiter, and braces around a single-expression match arm
    if let TokenTree::Punct(p) = &toks[i] {
      if p.as_char() == ',' && i + 1 == toks.len() {
        i += 1;
        continue;
      }
      // closure body: `|| { expr }` and `|| expr` are the same closure
      if p.as_char() == '|' {
        if let Some(TokenTree::Group(g)) = toks.get(i + 1) {
          if g.delimiter() == proc_macro2::Delimiter::Brace {
            let inner: Vec<TokenTree> = g.stream().into_iter().collect();
            let has_semi = inner.iter().any(|t| matches!(t, TokenTree::Punct(q) if q.as_char() == ';'));
            if !has_semi && !inner.is_empty() {
              out.push('|');
              skel(g.stream(), erase_ident, out, lits);
              i += 2;
              continue;
            }
          }
        }
      }
      if p.as_char() == '>' && i > 0 {
        if let (Some(TokenTree::Punct(prev)), Some(TokenTree::Group(g))) = (toks.get(i - 1), toks.get(i + 1)) {
          if prev.as_char() == '=' && prev.spacing() == proc_macro2::Spacing::Joint && g.delimiter() == proc_macro2::Delimiter::Brace {
            let inner: Vec<TokenTree> = g.stream().into_iter().collect();
            let has_semi = inner.iter().any(|t| matches!(t, TokenTree::Punct(q) if q.as_char() == ';'));
            if !has_semi && !inner.is_empty() {
              out.push('>');
              skel(g.stream(), erase_ident, out, lits);
              // the separator a bare-expression arm would carry (dropped again when it is the last arm)
              let next_is_comma = matches!(toks.get(i + 2), Some(TokenTree::Punct(q)) if q.as_char() == ',');
              if !next_is_comma && i + 2 < toks.len() {
                out.push(',');
              }
              i += 2;
              continue;
            }
          }
        }
      }
    }
    match &toks[i] {
      TokenTree::Group(g) => {
        let (o, c) = match g.delimiter() {
          proc_macro2::Delimiter::Parenthesis => ("(", ")"),
          proc_macro2::Delimiter::Brace => ("{", "}"),
          proc_macro2::Delimiter::Bracket => ("[", "]"),
          proc_macro2::Delimiter::None => ("", ""),
        };
        out.push_str(o);
        skel(g.stream(), erase_ident, out, lits);
        out.push_str(c);
      }
      TokenTree::Ident(id) => {
        out.push(' ');
        if erase_ident {
          out.push('I');
        } else {
          out.push_str(&id.to_string());
        }
      }
      TokenTree::Literal(l) => {
        let t = l.to_string();
        match syn::parse_str::<syn::Lit>(&t) {
          Ok(syn::Lit::Str(s)) => {
            lits.push(format!("str:{}", s.value()));
            out.push_str(" \"S\"");
          }
          Ok(syn::Lit::ByteStr(_)) => out.push_str(" b\"S\""),
          _ => {
            out.push(' ');
            out.push_str(&t);
          }
        }
      }
      TokenTree::Punct(p) => out.push(p.as_char()),
    }
    i += 1;
  }
}

pub fn skeleton_of(path: &str) -> Value {
  let src = match fs::read_to_string(path) {
    Ok(s) => s,
    Err(e) => return json!({"file": path, "error": format!("read: {e}")}),
  };
  let ts: proc_macro2::TokenStream = match src.parse() {
    Ok(t) => t,
    Err(e) => return json!({"file": path, "error": format!("lex: {e}")}),
  };
  if let Err(e) = syn::parse_file(&src) {
    return json!({"file": path, "error": format!("syn: {e}")});
  }
  let (mut a, mut b) = (String::new(), String::new());
  let (mut l1, mut l2) = (vec![], vec![]);
  skel(ts.clone(), false, &mut a, &mut l1);
  skel(ts, true, &mut b, &mut l2);
  json!({"file": path, "skeleton": a, "skeleton_noident": b, "literals": l1})
}

pub fn cmd_skeleton(args: &[String]) -> i32 {
  for f in files_from_args(args) {
    println!("{}", skeleton_of(&f));
  }
  0
}
