#![allow(warnings)]
#[path = "cases/case_0/mod.rs"]
mod case_0;
fn main() { println!("ok"); }
